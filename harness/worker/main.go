// Verification worker for gosk (built INTO the gosk module with `go build -tags verif -overlay`,
// mapped to cmd/verifworker/main.go; never committed to /repo).
//
// Protocol: jobs are JSON lines on stdin, events are JSON lines on the fd that was stdout at
// start (fd 1 is then redirected to a capture file so that gosk's own "GOSK : ..." messages
// do not mix with events).  One "job" event is written (and flushed) before each job starts so
// that the parent can attribute an os.Exit / fatal crash to the job that was running.
package main

import (
	"bufio"
	"bytes"
	"crypto/sha256"
	"debug/pe"
	"encoding/hex"
	"encoding/json"
	"fmt"
	"io"
	"log"
	"os"
	"reflect"
	"runtime/debug"
	"sort"
	"strings"
	"syscall"
	"time"

	"github.com/HobbyOSs/gosk/internal/ast"
	"github.com/HobbyOSs/gosk/internal/codegen"
	"github.com/HobbyOSs/gosk/internal/frontend"
	"github.com/HobbyOSs/gosk/internal/gen"
	"github.com/HobbyOSs/gosk/internal/pass1"
	"github.com/HobbyOSs/gosk/pkg/ocode"
)

type job struct {
	ID      int    `json:"id"`
	Src     string `json:"src"`
	SrcHex  string `json:"srchex"` // alternative to src: raw bytes, hex
	Dst     string `json:"dst"`    // destination path; default <scratch>/out.bin
	Pre     string `json:"pre"`    // "", "absent", "short", "long": destination content before
	Tree    string `json:"tree"`   // key under which the parse tree is cached
	Reuse   bool   `json:"reuse"`  // re-assemble the cached tree instead of parsing again
	NoTrace bool   `json:"notrace"`
	MaxOut  int    `json:"maxout"` // include output bytes as int array when len <= MaxOut (default 8192)
}

type ev map[string]any

var (
	out     *bufio.Writer
	scratch string
	capF    *os.File
)

func emit(e ev) {
	b, err := json.Marshal(e)
	if err != nil {
		b, _ = json.Marshal(ev{"e": "werr", "msg": err.Error()})
	}
	out.Write(b)
	out.WriteByte('\n')
}

func ascii(s string, max int) string {
	var sb strings.Builder
	for _, r := range s {
		if sb.Len() >= max {
			break
		}
		if r >= 32 && r < 127 && r != '"' && r != '\\' {
			sb.WriteRune(r)
		} else if r == '\n' || r == '\t' {
			sb.WriteByte(' ')
		} else {
			sb.WriteByte('?')
		}
	}
	return sb.String()
}

// diagWriter classifies gosk's log lines the way cmd/gosk's colog setup would.
type diagWriter struct {
	cnt   map[string]int
	first map[string]string
	cur   []string // classes seen since last reset (per statement / per ocode)
}

func (d *diagWriter) reset() {
	d.cnt = map[string]int{}
	d.first = map[string]string{}
	d.cur = nil
}

func classify(line string) string {
	i := strings.Index(line, ": ")
	if i > 0 && i <= 8 {
		switch line[:i] {
		case "t", "trc", "trace", "d", "dbg", "debug":
			return ""
		case "i", "inf", "info":
			return "info"
		case "w", "wrn", "warn", "warning":
			return "warn"
		case "e", "err", "error":
			return "error"
		case "a", "alr", "alert", "panic":
			return "error"
		}
	}
	if strings.HasPrefix(line, "Error") || strings.HasPrefix(line, "ERROR") {
		return "Error"
	}
	if strings.HasPrefix(line, "Warning") || strings.HasPrefix(line, "WARN") {
		return "Warn"
	}
	return "plain"
}

func (d *diagWriter) Write(p []byte) (int, error) {
	for _, line := range strings.Split(strings.TrimRight(string(p), "\n"), "\n") {
		c := classify(line)
		if c == "" || c == "info" || c == "plain" {
			continue
		}
		d.cnt[c]++
		if _, ok := d.first[c]; !ok {
			d.first[c] = ascii(line, 160)
		}
		d.cur = append(d.cur, c)
	}
	return len(p), nil
}

func (d *diagWriter) take() []string {
	r := d.cur
	d.cur = nil
	if r == nil {
		r = []string{}
	}
	return r
}

var diag = &diagWriter{}

func ints(b []byte) []int {
	r := make([]int, len(b))
	for i, x := range b {
		r[i] = int(x)
	}
	return r
}

func stmtKind(s ast.Statement) (string, string, string) {
	switch n := s.(type) {
	case *ast.MnemonicStmt:
		return "Mnemonic", n.Opcode.Value, ""
	case *ast.OpcodeStmt:
		return "Opcode", n.Opcode.Value, ""
	case *ast.LabelStmt:
		return "Label", "", strings.TrimSuffix(n.Label.Value, ":")
	case *ast.DeclareStmt:
		return "Declare", "", n.Id.Value
	case *ast.ExportSymStmt:
		return "Export", "", ""
	case *ast.ExternSymStmt:
		return "Extern", "", ""
	case *ast.ConfigStmt:
		return "Config", string(n.ConfigType), ""
	}
	return reflect.TypeOf(s).String(), "", ""
}

var trees = map[string]any{}

func runJob(j job) {
	t0 := time.Now()
	diag.reset()
	capF.Truncate(0)
	capF.Seek(0, 0)
	dst := j.Dst
	if dst == "" {
		dst = scratch + "/out.bin"
	}
	switch j.Pre {
	case "", "absent":
		os.Remove(dst)
	case "short":
		os.WriteFile(dst, []byte{0xAA, 0xBB, 0xCC}, 0644)
	case "long":
		os.WriteFile(dst, bytes.Repeat([]byte{0xEE}, 200000), 0644)
	}
	maxOut := j.MaxOut
	if maxOut == 0 {
		maxOut = 8192
	}
	end := ev{"e": "end", "id": j.ID, "status": "ok", "exit": 0, "panic": "", "perr": ""}
	finish := func() {
		end["us"] = int(time.Since(t0).Microseconds())
		d := ev{}
		for _, c := range []string{"error", "Error", "warn", "Warn"} {
			d[c] = diag.cnt[c]
		}
		end["diag"] = d
		fd := ev{}
		for k, v := range diag.first {
			fd[k] = v
		}
		end["diagfirst"] = fd
		capF.Seek(0, 0)
		so, _ := io.ReadAll(io.LimitReader(capF, 2000))
		end["stdout"] = ascii(string(so), 400)
		data, err := os.ReadFile(dst)
		if err != nil {
			end["outlen"] = -1
			end["sha"] = ""
		} else {
			end["outlen"] = len(data)
			h := sha256.Sum256(data)
			end["sha"] = hex.EncodeToString(h[:8])
			end["hex"] = hex.EncodeToString(data)
			if len(data) <= maxOut {
				end["out"] = ints(data)
			}
			if f, _ := end["fmt"].(string); f == "WCOFF" {
				end["pe"] = peSummary(data)
			}
		}
		emit(end)
	}
	defer func() {
		if r := recover(); r != nil {
			end["status"] = "panic"
			end["panic"] = ascii(fmt.Sprint(r), 200)
			st := string(debug.Stack())
			// first gosk frame below the panic
			for _, l := range strings.Split(st, "\n") {
				if strings.Contains(l, "HobbyOSs/gosk/") && !strings.Contains(l, "verifworker") {
					end["panicat"] = ascii(strings.TrimSpace(l), 160)
					break
				}
			}
			finish()
		}
	}()

	var tree any
	if j.Reuse && trees[j.Tree] != nil {
		tree = trees[j.Tree]
	} else {
		src := []byte(j.Src)
		if j.SrcHex != "" {
			src, _ = hex.DecodeString(j.SrcHex)
		}
		pt, err := gen.Parse("", src, gen.Entrypoint("Program"))
		if err != nil {
			end["status"] = "parse"
			end["exit"] = 255
			end["perr"] = ascii(err.Error(), 200)
			finish()
			return
		}
		tree = pt
		if j.Tree != "" {
			trees[j.Tree] = pt
		}
	}

	stmtIdx := 0
	var before ev
	ocIdx := 0
	if !j.NoTrace {
		pass1.VerifStmtHook = func(phase int, env *pass1.Pass1, stmt ast.Statement) {
			if phase == 0 {
				diag.take()
				before = ev{"loc": int(env.LOC), "bits": int(env.BitMode), "oc": len(env.Client.GetOcodes()), "dollar": int(int32(env.DollarPosition))}
				return
			}
			kind, op, name := stmtKind(stmt)
			e := ev{"e": "p1", "id": j.ID, "i": stmtIdx, "kind": kind, "op": op, "name": name,
				"locB": before["loc"], "locA": int(env.LOC), "bitsB": before["bits"], "bitsA": int(env.BitMode),
				"ocB": before["oc"], "ocA": len(env.Client.GetOcodes()),
				"dolB": before["dollar"], "dolA": int(int32(env.DollarPosition)),
				"nsym": len(env.SymTable), "diag": diag.take()}
			if kind == "Label" {
				e["val"] = int(env.SymTable[name])
			}
			if ms, ok := stmt.(*ast.MnemonicStmt); ok {
				e["nops"] = len(ms.Operands)
			} else {
				e["nops"] = 0
			}
			emit(e)
			stmtIdx++
		}
		codegen.VerifOcodeHook = func(oc ocode.Ocode, ctx *codegen.CodeGenContext, off int, code []byte, err error) {
			es := ""
			if err != nil {
				es = ascii(err.Error(), 160)
			}
			ops := make([]string, len(oc.Operands))
			for i, o := range oc.Operands {
				ops[i] = ascii(o, 80)
			}
			// (a chunk beyond 256 KiB is reported truncated: the validator then sees a length it cannot accept,
			// instead of being handed hundreds of megabytes)
			shown := code
			if len(shown) > 262144 {
				shown = shown[:262144]
			}
			emit(ev{"e": "cg", "id": j.ID, "k": ocIdx, "kind": strings.TrimPrefix(oc.Kind.String(), "Op"), "ops": ops,
				"bits": int(ctx.BitMode), "org": int(int32(ctx.DollarPosition)), "off": off,
				"bytes": ints(shown), "err": es, "diag": diag.take()})
			ocIdx++
			diag.take()
		}
	} else {
		pass1.VerifStmtHook = nil
		codegen.VerifOcodeHook = nil
	}

	p1, p2 := frontend.Exec(tree, dst)
	_ = p2
	sym := ev{}
	names := make([]string, 0, len(p1.SymTable))
	for k := range p1.SymTable {
		names = append(names, k)
	}
	sort.Strings(names)
	for _, k := range names {
		sym[ascii(k, 60)] = int(p1.SymTable[k])
	}
	end["sym"] = sym
	end["loc"] = int(p1.LOC)
	end["dollar"] = int(int32(p1.DollarPosition))
	end["bits"] = int(p1.BitMode)
	end["fmt"] = ascii(p1.OutputFormat, 20)
	end["file"] = ascii(p1.SourceFileName, 80)
	gl := make([]string, 0)
	for _, g := range p1.GlobalSymbolList {
		gl = append(gl, ascii(g, 60))
	}
	end["glob"] = gl
	ex := make([]string, 0)
	for _, g := range p1.ExternSymbolList {
		ex = append(ex, ascii(g, 60))
	}
	end["ext"] = ex
	end["nstmt"] = stmtIdx
	end["noc"] = ocIdx
	finish()
}

func peSummary(data []byte) ev {
	r := ev{"err": ""}
	f, err := pe.NewFile(bytes.NewReader(data))
	if err != nil {
		r["err"] = ascii(err.Error(), 160)
		return r
	}
	defer f.Close()
	r["machine"] = int(f.FileHeader.Machine)
	r["nsec"] = len(f.Sections)
	secs := []ev{}
	for _, s := range f.Sections {
		d, derr := s.Data()
		de := ""
		if derr != nil {
			de = ascii(derr.Error(), 80)
		}
		h := sha256.Sum256(d)
		secs = append(secs, ev{"name": ascii(s.Name, 16), "size": int(s.Size), "off": int(s.Offset), "derr": de, "sha": hex.EncodeToString(h[:8]), "dlen": len(d)})
	}
	r["secs"] = secs
	syms := []ev{}
	for _, s := range f.Symbols {
		syms = append(syms, ev{"name": ascii(s.Name, 60), "value": int(int32(s.Value)), "sec": int(s.SectionNumber), "type": int(s.Type), "class": int(s.StorageClass)})
	}
	r["syms"] = syms
	r["ncoffsyms"] = len(f.COFFSymbols)
	r["strtab"] = len(f.StringTable)
	return r
}

func main() {
	log.SetFlags(0)
	log.SetOutput(diag)
	diag.reset()
	var err error
	scratch = os.Args[1]
	evfd, err := syscall.Dup(1)
	if err != nil {
		panic(err)
	}
	out = bufio.NewWriterSize(os.NewFile(uintptr(evfd), "events"), 1<<20)
	capF, err = os.OpenFile(scratch+"/stdout.cap", os.O_RDWR|os.O_CREATE|os.O_TRUNC, 0644)
	if err != nil {
		panic(err)
	}
	syscall.Dup2(int(capF.Fd()), 1)
	syscall.Dup2(int(capF.Fd()), 2)

	in := bufio.NewReaderSize(os.Stdin, 1<<20)
	for {
		line, err := in.ReadBytes('\n')
		if len(bytes.TrimSpace(line)) > 0 {
			var j job
			if jerr := json.Unmarshal(line, &j); jerr != nil {
				emit(ev{"e": "werr", "msg": ascii(jerr.Error(), 100)})
			} else {
				emit(ev{"e": "job", "id": j.ID})
				out.Flush()
				runJob(j)
				out.Flush()
			}
		}
		if err != nil {
			break
		}
	}
	out.Flush()
}
