------------------------------ MODULE Gen_Prog ------------------------------
(* Generator (direction A): random PROGRAMS over the statement forms the     *)
(* book-style sources use, built statement by statement.  Run with           *)
(*   tlc -simulate num=K -depth (N+2) -seed S                                *)
(* every behaviour that reaches length N is exported once.                   *)
(* Labels L0..L(NL-1): each is defined exactly once; branches may refer to   *)
(* labels defined earlier or later; data/immediates refer to labels already  *)
(* defined (a forward reference there is diagnosed by gosk).                 *)
EXTENDS Integers, Sequences, FiniteSets, Json, TLC

CONSTANTS N,        \* program length (statements)
          NL,       \* number of labels
          Bits,     \* 16 or 32: which instruction forms are used
          Flavor    \* "full" | "pic" (position-independent, label-free: for C14)

Rg(w, n) == [t |-> "r", w |-> w, n |-> n]
Im(v, sty) == [t |-> "i", v |-> v, sty |-> sty]
Ins(mn, ops) == [k |-> "ins", mn |-> mn, ops |-> ops]
Lit(v) == [o |-> "n", v |-> v, sty |-> "d"]
Hex(v) == [o |-> "n", v |-> v, sty |-> "h"]
E(e) == [t |-> "e", e |-> e]
M16(b, x, d, hd) == [t |-> "m", w |-> 0, aw |-> 16, b |-> b, x |-> x, sc |-> 1, d |-> d, hd |-> hd, lab |-> "", sty |-> "d"]
Abs(d) == [t |-> "m", w |-> 0, aw |-> 0, b |-> -1, x |-> -1, sc |-> 1, d |-> d, hd |-> 1, lab |-> "", sty |-> "h"]
LabName(i) == "L" \o ToString(i)

W == IF Bits = 16 THEN 16 ELSE 32
Small == {0, 1, 2, 7, 16, 100, 127, -1, -128}
Imm16 == {0, 1, 255, 256, 4660, 32767}
Bytes8 == {0, 1, 10, 13, 85, 127, 170, 255}

\* instruction forms that the pinned tree and the reference agree on in mode Bits
InsPool ==
  {Ins("MOV", <<Rg(W, r), Im(v, "h")>>) : r \in 0..7, v \in Imm16}
  \cup {Ins("MOV", <<Rg(8, r), Im(v, "d")>>) : r \in 0..7, v \in Bytes8}
  \cup {Ins("MOV", <<Rg(W, a), Rg(W, b)>>) : a \in {0, 3, 6}, b \in {1, 2, 7}}
  \cup {Ins(mn, <<Rg(W, r), Im(v, "d")>>) : mn \in {"ADD", "SUB", "CMP", "AND", "OR", "XOR"}, r \in {0, 1, 3, 6}, v \in Small}
  \cup {Ins(mn, <<Rg(8, r), Im(v, "d")>>) : mn \in {"ADD", "CMP", "AND", "OR"}, r \in {0, 1, 4}, v \in {0, 1, 15, 127}}
  \cup {Ins(mn, <<Rg(W, a), Rg(W, b)>>) : mn \in {"ADD", "SUB", "XOR", "CMP"}, a \in {0, 2}, b \in {3, 7}}
  \cup {Ins(mn, << >>) : mn \in {"HLT", "NOP", "CLI", "STI", "RET", "CLD", "STD", "CLC", "STC"}}
  \cup {Ins("INT", <<Im(v, "h")>>) : v \in {16, 19, 21}}
  \cup {Ins(mn, <<Rg(W, r)>>) : mn \in {"PUSH", "POP"}, r \in {0, 1, 3, 5, 6}}
  \cup {Ins("IN", <<Rg(8, 0), Rg(16, 2)>>), Ins("OUT", <<Rg(16, 2), Rg(8, 0)>>), Ins("OUT", <<Im(33, "h"), Rg(8, 0)>>), Ins("IN", <<Rg(8, 0), Im(96, "h")>>)}
  \cup {Ins(mn, <<Rg(W, r), Im(c, "d")>>) : mn \in {"SHL", "SHR", "SAR"}, r \in {0, 2, 3}, c \in {1, 4}}
  \cup {Ins("NOT", <<Rg(W, r)>>) : r \in {0, 1}}
  \cup (IF Bits = 16
        THEN {Ins("MOV", <<Rg(8, r), M16(6, -1, 0, 0)>>) : r \in {0, 1}} \cup {Ins("MOV", <<M16(3, -1, d, 1), Rg(8, r)>>) : r \in {0, 4}, d \in {1, 200}}
             \cup {Ins("MOV", <<Rg(16, r), M16(5, -1, 4, 1)>>) : r \in {0, 1}} \cup {Ins("MOV", <<Abs(4080), Rg(8, 5)>>), Ins("MOV", <<Rg(16, 0), Abs(4084)>>)}
             \cup {Ins("MOV", <<[t |-> "s", n |-> s], Rg(16, 0)>>) : s \in {0, 2, 3}}
             \cup {Ins("MOV", <<Rg(w, 1), M16(b, x, 0, 0)>>) : w \in {8, 16}, b \in {3, 5}, x \in {6, 7}}      \* [BX+SI] [BX+DI] [BP+SI] [BP+DI]
             \cup {Ins("MOV", <<M16(5, -1, 0, 0), Rg(16, 2)>>), Ins("ADD", <<Rg(16, 0), M16(5, 6, 2, 1)>>)}           \* [BP] (needs a zero disp8), [BP+SI+2]
        ELSE {})

DataPool ==
  {[k |-> "data", mn |-> "DB", items |-> <<E(Lit(a)), E(Lit(b))>>] : a \in Bytes8, b \in {0, 255}}
  \cup {[k |-> "data", mn |-> "DB", items |-> <<[t |-> "s", b |-> s], E(Lit(0))>>] : s \in {<<104, 105>>, <<97, 44, 59, 35, 32, 98>>, << >>,
                                                                                            <<99, 97, 102, 195, 169>>, <<227, 129, 130, 33>>}}      \* "caf\'e", hiragana a + "!" (UTF-8: more bytes than characters)
  \cup {[k |-> "data", mn |-> "DW", items |-> <<E(Hex(v))>>] : v \in {0, 43605, 65535, -2}}
  \cup {[k |-> "data", mn |-> "DD", items |-> <<E(Hex(v)), E(Lit(1))>>] : v \in {0, 305419896, -1}}
  \cup {[k |-> "resb", e |-> Lit(v)] : v \in {0, 1, 5, 18}}

VARIABLES prog, defd, step
vars == <<prog, defd, step>>

Init == prog = << >> /\ defd = {} /\ step = 0

Labs == 0..(NL - 1)
Undef == Labs \ defd

Jcc == {"JMP", "JE", "JNE", "JC", "JNC", "JB", "JAE", "JZ", "JNZ", "JA", "JBE", "CALL"}

\* one random statement, kind chosen first (weights by repetition)
FarPool == {[k |-> "far", mn |-> "JMP", seg |-> sg, off |-> o, offnm |-> "", kw |-> kw, sty |-> "h"] : sg \in {8, 16}, o \in {27, 74565}, kw \in {"", "DWORD"}}
Kinds == IF Flavor = "pic" THEN {"ins", "ins2", "ins3", "data", "far"}
         ELSE {"ins", "ins2", "ins3", "ins4", "data", "data2", "label", "label2", "br", "br2", "br3", "lref", "lref2", "dref", "dref2", "equuse", "equuse2", "align", "dir", "far"}
PickOf(kind) ==
  CASE kind \in {"ins", "ins2", "ins3", "ins4"} -> RandomElement(InsPool)
    [] kind \in {"data", "data2"} -> RandomElement(DataPool)
    [] kind \in {"label", "label2"} -> IF Undef = {} THEN RandomElement(InsPool) ELSE [k |-> "label", nm |-> LabName(RandomElement(Undef))]
    [] kind \in {"br", "br2", "br3"} -> [k |-> "br", mn |-> RandomElement(Jcc), tgt |-> [t |-> "l", nm |-> LabName(RandomElement(Labs)), add |-> 0]]
    \* a label used as an immediate may be defined before or after (both are supported: MOV SI,msg ... msg:)
    [] kind \in {"lref", "lref2"} -> Ins("MOV", <<Rg(W, RandomElement({3, 6, 7})), [t |-> "l", nm |-> LabName(RandomElement(Labs)), add |-> 0]>>)
    [] kind \in {"dref", "dref2"} -> IF defd = {} THEN RandomElement(DataPool)
                        ELSE [k |-> "data", mn |-> RandomElement({"DW", "DD"}), items |-> <<E([o |-> "id", nm |-> LabName(RandomElement(defd))])>>]
    [] kind \in {"equuse", "equuse2"} -> RandomElement({Ins("MOV", <<Rg(W, 1), [t |-> "l", nm |-> "CYLS", add |-> 0]>>), Ins("CMP", <<Rg(8, 5), [t |-> "l", nm |-> "CYLS", add |-> 0]>>),
                                         [k |-> "data", mn |-> "DW", items |-> <<E([o |-> "+", a |-> [o |-> "id", nm |-> "BASE"], b |-> Lit(2)])>>],
                                         [k |-> "resb", e |-> [o |-> "id", nm |-> "CYLS"]]})
    \* directives that emit nothing and must not move the location counter (wherever they stand)
    [] kind = "dir" -> RandomElement({[k |-> "cfg", mn |-> "SECTION", s |-> ".text"], [k |-> "cfg", mn |-> "SECTION", s |-> ".data"],
                                      [k |-> "cfg", mn |-> "SECTION", s |-> ".bss"], [k |-> "cfg", mn |-> "INSTRSET", s |-> "\"i486p\""],
                                      [k |-> "cfg", mn |-> "OPTIMIZE", s |-> "1"], [k |-> "cfg", mn |-> "PADDING", s |-> "1"],
                                      [k |-> "bits", v |-> Bits]})
    [] kind = "far" -> RandomElement(FarPool)          \* far jump with a numeric pointer (7 bytes in 32-bit code, 8 with 66h in 16-bit code)
    [] kind = "align" -> [k |-> "alignb", v |-> RandomElement({2, 4, 16})]
Pick == CHOOSE s \in {PickOf(k) : k \in {RandomElement(Kinds)}} : TRUE

Add == /\ step < N
       /\ \E s \in {Pick} :       \* (bind the random choice once)
          /\ prog' = Append(prog, s)
          /\ defd' = IF s.k = "label" THEN defd \cup {CHOOSE i \in Labs : LabName(i) = s.nm} ELSE defd
       /\ step' = step + 1

Fin == /\ step = N /\ step' = N + 1 /\ PrintT(<<"CASE", ToJson([prog |-> prog, undef |-> {LabName(i) : i \in Undef}])>>)
       /\ UNCHANGED <<prog, defd>>

Next == Add \/ Fin
Spec == Init /\ [][Next]_vars
=============================================================================
