------------------------------- MODULE AsmRel -------------------------------
(* The relational properties (C11 C14 C15 C16) as theorems of the reference   *)
(* semantics, checked by TLC over all bounded programs.                       *)
(*                                                                            *)
(* The reference pipeline (Asm.tla) is nondeterministic: pass 1 may assume    *)
(* any size that some valid encoding has.  RunWith(p, sz) is the run in which *)
(* statement k is assumed to have size sz[k]; it is a FUNCTION of (p, sz)     *)
(* because, in a given mode, the forms of an instruction have distinct        *)
(* lengths.  Outs(p) is the set of images of all feasible runs.  The          *)
(* properties relate Outs of a program and of its transform.                  *)
EXTENDS Asm

\* all size vectors pass 1 may choose for program p (addresses thread through)
RECURSIVE SizeVecs(_, _, _, _)
SizeVecs(p, k, a, b) ==      \* k: next statement, a: its address, b: mode in force
  IF k > Len(p) THEN {<< >>}
  ELSE LET s == p[k]
           nb == IF s.k = "bits" THEN s.v ELSE b
       IN UNION {{<<z>> \o rest : rest \in SizeVecs(p, k + 1, IF s.k = "org" THEN s.v ELSE a + z, nb)} : z \in Sizes(s, b, a)}

\* layout induced by a size vector
RECURSIVE LayoutOf(_, _, _, _, _)
LayoutOf(p, sz, k, a, b) ==
  IF k > Len(p) THEN << >>
  ELSE LET s == p[k] IN
       <<[locB |-> a, sz |-> sz[k], bits |-> b]>>
       \o LayoutOf(p, sz, k + 1, IF s.k = "org" THEN s.v ELSE a + sz[k], IF s.k = "bits" THEN s.v ELSE b)

OrgOf(p) == IF p # << >> /\ p[1].k = "org" THEN p[1].v ELSE 0
SymOf(p, L) == [nm \in Labels(p) |-> L[CHOOSE j \in 1..Len(p) : p[j].k = "label" /\ p[j].nm = nm].locB]
RECURSIVE EquOf(_, _, _)
EquOf(p, L, k) == IF k = 0 THEN EmptyFn
                  ELSE LET e == EquOf(p, L, k - 1) IN
                       IF p[k].k = "equ" THEN Put(e, p[k].nm, SubstDollar(p[k].e, L[k].locB)) ELSE e

\* the chunk of statement k in the run with layout L (or the empty SET if that assumption is infeasible)
ChunkSet(p, L, k) ==
  LET s == p[k]  l == L[k]
      env == [sym |-> SymOf(p, L), equ |-> EquOf(p, L, Len(p)), dollar |-> l.locB]
  IN
  CASE s.k \in {"label", "equ", "org", "bits", "cfg", "global", "extern"} -> {<< >>}
    [] s.k = "data" -> {ItemsBytes(s.items, DataWidth(s.mn), env)}
    [] s.k = "resb" -> {Zeros(s.e.v)}
    [] s.k = "alignb" -> {Zeros(AlignPad(l.locB, s.v))}
    [] s.k = "ins" -> {e \in EncIns(ResolveEqu(s, env), l.bits, env) : Len(e) = l.sz}
    [] s.k = "br" -> LET t == env.sym[s.tgt.nm] + s.tgt.add IN
                     {BranchBytes(f, l.locB, t) : f \in {g \in BranchForms(s.mn, l.bits) : FormLen(g) = l.sz /\ BranchFits(g, l.locB, t, l.bits)}}

Feasible(p, sz) == LET L == LayoutOf(p, sz, 1, 0, 16) IN \A k \in 1..Len(p) : ChunkSet(p, L, k) # {}
RunWith(p, sz) == LET L == LayoutOf(p, sz, 1, 0, 16) IN
                  [out |-> [k \in 1..Len(p) |-> CHOOSE c \in ChunkSet(p, L, k) : TRUE], sym |-> SymOf(p, L)]
Runs(p) == {sz \in SizeVecs(p, 1, 0, 16) : Feasible(p, sz)}
Outs(p) == {Flatten(RunWith(p, sz).out) : sz \in Runs(p)}
Closed(p) == Refs(p) \subseteq Labels(p)

(***************************************************************************)
(* Transformations                                                         *)
(***************************************************************************)
RenameStmt(s, r(_)) ==
  CASE s.k = "label" -> [s EXCEPT !.nm = r(s.nm)]
    [] s.k = "br" -> [s EXCEPT !.tgt.nm = r(s.tgt.nm)]
    [] s.k = "ins" -> [s EXCEPT !.ops = [j \in 1..Len(s.ops) |-> IF s.ops[j].t = "l" THEN [s.ops[j] EXCEPT !.nm = r(s.ops[j].nm)] ELSE s.ops[j]]]
    [] s.k = "data" -> [s EXCEPT !.items = [j \in 1..Len(s.items) |->
                          IF s.items[j].t = "e" /\ s.items[j].e.o = "id" THEN [t |-> "e", e |-> [o |-> "id", nm |-> r(s.items[j].e.nm)]] ELSE s.items[j]]]
    [] OTHER -> s
Rename(p, r(_)) == [k \in 1..Len(p) |-> RenameStmt(p[k], r)]

WithOrg(p, o) == IF p # << >> /\ p[1].k = "org" THEN <<[k |-> "org", v |-> o]>> \o Tail(p) ELSE <<[k |-> "org", v |-> o]>> \o p
Body(p) == IF p # << >> /\ p[1].k = "org" THEN Tail(p) ELSE p

\* statement embeds an absolute address
IsAbs(s) == \/ s.k = "ins" /\ \E j \in 1..Len(s.ops) : s.ops[j].t = "l"
            \/ s.k = "data" /\ \E j \in 1..Len(s.items) : s.items[j].t = "e" /\ s.items[j].e.o = "id"

(***************************************************************************)
(* The theorems, as state predicates over the program being built          *)
(***************************************************************************)
Swap(n) == CASE n = "a" -> "b" [] n = "b" -> "a" [] OTHER -> n
Long(n) == CASE n = "a" -> "a_rather_long_label_name_a" [] n = "b" -> "a_rather_long_label_name_a_" [] OTHER -> n

\* C15: names are opaque
Thm_C15 == (phase = "build" /\ prog # << >> /\ Closed(prog)) =>
             /\ Outs(Rename(prog, Swap)) = Outs(prog)
             /\ Outs(Rename(prog, Long)) = Outs(prog)

\* C16: relocation (programs without ORG inside; 16-bit; delta keeps ALIGNB 4 alignment)
NoOrgNoBits(p) == \A k \in 1..Len(p) : p[k].k \notin {"org", "bits"}
Thm_C16 == (phase = "build" /\ prog # << >> /\ Closed(prog) /\ NoOrgNoBits(prog)) =>
   LET p0 == prog
       p1 == WithOrg(prog, 31744)
       d == 31744
   IN /\ Outs(<<[k |-> "org", v |-> 0]>> \o p0) = Outs(p0)                  \* no ORG == ORG 0
      /\ {sz \in Runs(p0) : TRUE} = {Tail(sz) : sz \in Runs(p1)}            \* same feasible size assignments: same lengths
      /\ \A sz \in Runs(p0) :
           LET A == RunWith(p0, sz)  B == RunWith(p1, <<0>> \o sz) IN
           /\ \A k \in 1..Len(p0) : /\ Len(A.out[k]) = Len(B.out[k + 1])
                                    /\ (~IsAbs(p0[k]) => A.out[k] = B.out[k + 1])      \* relative displacements unchanged
           /\ \A nm \in Labels(p0) : B.sym[nm] = A.sym[nm] + d

\* C14: label-free, position-independent prefix/suffix: the image of A;B is the image of A followed by that of B
LabelFree(p) == \A k \in 1..Len(p) : p[k].k \in {"ins", "data", "resb"} /\ ~IsAbs(p[k])
Thm_C14 == (phase = "build" /\ Len(prog) >= 2 /\ LabelFree(prog)) =>
   \A cut \in 1..(Len(prog) - 1) :
      Outs(prog) = {a \o b : a \in Outs(SubSeq(prog, 1, cut)), b \in Outs(SubSeq(prog, cut + 1, Len(prog)))}

\* C11: replacing a literal by an EQU name defined before (directly or through a chain) changes nothing
Abstract(p, k) ==     \* statement k must be `MOV r, imm`: becomes  Q2 EQU v ; Q1 EQU Q2 ; ... MOV r, Q1
  LET s == p[k]
      v == s.ops[2].v
  IN SubSeq(p, 1, k - 1)
     \o <<[k |-> "equ", nm |-> "Q2", e |-> [o |-> "n", v |-> v]], [k |-> "equ", nm |-> "Q1", e |-> [o |-> "par", a |-> [o |-> "id", nm |-> "Q2"]]],
          [s EXCEPT !.ops = <<s.ops[1], [t |-> "l", nm |-> "Q1", add |-> 0]>>]>>
     \o SubSeq(p, k + 1, Len(p))
Thm_C11 == (phase = "build" /\ prog # << >> /\ Closed(prog)) =>
   \A k \in 1..Len(prog) : (prog[k].k = "ins" /\ prog[k].ops # << >> /\ prog[k].ops[Len(prog[k].ops)].t = "i" /\ prog[k].mn = "MOV")
        => Outs(Abstract(prog, k)) = Outs(prog)
=============================================================================
