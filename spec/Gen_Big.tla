------------------------------- MODULE Gen_Big -------------------------------
(* Generator (direction A) for C06 / C11 beyond 32 bits: expression trees over *)
(* leaves on both sides of 2^31 and 2^32 whose intermediate values all fit a   *)
(* signed 64-bit integer and whose divisors are not zero (BigOK).  Each case   *)
(* carries the 4 low bytes the reference computes, for the evidence record.    *)
EXTENDS Big, Json, TLC, FiniteSets
CONSTANT Part        \* "d1" | "d2l" | "d2r" | "d2n"

Nb(m) == [o |-> "nb", neg |-> FALSE, mag |-> m]
Lit(v) == [o |-> "n", v |-> v]
\* 0x80000000 0xffffffff 0xffffff80 0xffff0000 0x100000000 2^62
BigLeaves == {Nb(<<3648, 4748, 21>>), Nb(<<7295, 9496, 42>>), Nb(<<7168, 9496, 42>>), Nb(<<1760, 9490, 42>>), Nb(<<7296, 9496, 42>>),
              Nb(<<7904, 2738, 184, 1686, 461>>)}
SmallLeaves == {Lit(1), Lit(2), Lit(3), Lit(7), Lit(256), Lit(65536), Lit(2147483647), Lit(-1), Lit(-128)}
Leaves == BigLeaves \cup SmallLeaves
Ops == {"+", "-", "*", "/", "%"}
Bin(o, a, b) == [o |-> o, a |-> a, b |-> b]
Par(a) == [o |-> "par", a |-> a]
D1 == {Bin(o, a, b) : o \in Ops, a \in Leaves, b \in Leaves}
HasBig(e) == e.a \in BigLeaves \/ e.b \in BigLeaves
D1b == {e \in D1 : HasBig(e)}
FewLeaves == {Lit(2), Lit(7), Lit(65536), Nb(<<7295, 9496, 42>>), Nb(<<3648, 4748, 21>>)}
Universe ==
  CASE Part = "d1" -> D1b
    [] Part = "d2l" -> {Bin(o, Par(x), c) : o \in Ops, x \in D1b, c \in FewLeaves}                 \* (a op b) op c
    [] Part = "d2r" -> {Bin(o, c, Par(x)) : o \in Ops, x \in D1b, c \in FewLeaves}                 \* c op (a op b)
    [] Part = "d2n" -> {Bin(o, x.a, Bin(x.o, x.b, c)) : o \in {"+", "-"}, x \in {y \in D1b : y.o \in {"*", "/", "%"}}, c \in FewLeaves}   \* a + b*c: precedence, no parentheses
                       \cup {Bin(o, x, c) : o \in Ops, x \in {y \in D1b : y.o \in {"*", "/", "%"}}, c \in FewLeaves}                     \* a*b op c: left to right
NoDefs == [zz \in {} |-> 0]
VARIABLE c
Init == c \in {e \in Universe : BigOK(e, NoDefs)}
Next == UNCHANGED c
Emit == PrintT(<<"CASE", ToJson([e |-> c, le4 |-> BLE(BigEval(c, NoDefs), 4)])>>)
=============================================================================
