------------------------------ MODULE Gen_Data ------------------------------
(* Generator (direction A): the universe of data-directive cells of C05.     *)
(* Every reachable state is one test cell; it is exported as JSON.           *)
EXTENDS Integers, Sequences, FiniteSets, Json, TLC

CONSTANTS MaxLen,      \* longest operand list enumerated exhaustively
          Part         \* which part of the universe: "lists" | "resb" | "alignb" | "dirs"

N(v) == [t |-> "e", e |-> [o |-> "n", v |-> v, sty |-> "d"]]
H(v) == [t |-> "e", e |-> [o |-> "n", v |-> v, sty |-> "h"]]
Z(v) == [t |-> "e", e |-> [o |-> "n", v |-> v, sty |-> "z"]]      \* zero-padded decimal: 010 is ten
HU(v) == [t |-> "e", e |-> [o |-> "n", v |-> v, sty |-> "H"]]     \* 0X.. with upper-case digits
Bin(op, a, b) == [o |-> op, a |-> a, b |-> b]
Lit(v) == [o |-> "n", v |-> v, sty |-> "d"]
E(e) == [t |-> "e", e |-> e]
Str(b) == [t |-> "s", b |-> b]

Numbers == {N(0), N(1), N(-1), N(127), N(128), N(255), N(256), N(-128), N(-129), H(32767), H(32768),
            H(65535), H(65536), N(-32768), H(2147483647), N(-2147483647 - 1), H(-1), Z(10), Z(777), Z(8), Z(-9), HU(43981)}
Exprs == {E(Bin("+", Lit(1), Bin("*", Lit(2), Lit(3)))),
          E(Bin("*", [o |-> "par", a |-> Bin("+", Lit(1), Lit(2))], Lit(3))),
          E(Bin("/", Lit(7), Lit(2))), E(Bin("/", [o |-> "neg", a |-> Lit(7)], Lit(2))),
          E(Bin("-", Bin("-", Lit(10), Lit(2)), Lit(3))), E(Bin("%", Lit(300), Lit(7)))}
Strings == {Str(<< >>), Str(<<97>>), Str(<<97, 44, 98>>), Str(<<120, 59, 121>>), Str(<<112, 35, 113>>),
            Str(<<97, 32, 98>>), Str(<<99, 195, 169>>), Str(<<227, 129, 130>>), Str(<<115, 34, 104, 105, 34>>), Str(<<39, 113>>)}
Syms == {E([o |-> "id", nm |-> "lbl0"]), E([o |-> "$"]), E(Bin("+", [o |-> "id", nm |-> "lbl0"], Lit(2))),
         E([o |-> "id", nm |-> "K5"]),
         \* identifiers may contain `.` and `$` (grammar: [a-zA-Z$_.][a-zA-Z$_.0-9]*)
         E([o |-> "id", nm |-> ".tbl"]), E([o |-> "id", nm |-> "$x"]), E([o |-> "id", nm |-> "lbl.end"])}

Alphabet == Numbers \cup Exprs \cup Strings \cup Syms

Lists == UNION {[1..n -> Alphabet] : n \in 1..MaxLen}

Universe ==
  CASE Part = "lists" -> {[k |-> "data", mn |-> d, items |-> it] : d \in {"DB", "DW", "DD"}, it \in Lists}
    [] Part = "resb" -> {[k |-> "resb", e |-> e] : e \in {Lit(0), Lit(1), Lit(2), Lit(255), Lit(256), Lit(4096),
                            Bin("*", Lit(3), Lit(5)), [o |-> "n", v |-> 10, sty |-> "z"], [o |-> "n", v |-> 100, sty |-> "z"], Bin("-", [o |-> "n", v |-> 31776, sty |-> "h"], [o |-> "$"]),
                            Bin("-", Bin("+", [o |-> "id", nm |-> "lbl0"], Lit(64)), [o |-> "$"]), [o |-> "id", nm |-> "K5"]}}
    [] Part = "alignb" -> {[k |-> "alignb", v |-> v] : v \in {1, 2, 4, 8, 16, 32}}
    [] Part = "dirs" -> {[k |-> "equ", nm |-> "Q1", e |-> Lit(9)], [k |-> "label", nm |-> "zz9"],
                         [k |-> "global", names |-> <<"lbl0">>], [k |-> "extern", names |-> <<"_ext1">>],
                         [k |-> "cfg", mn |-> "INSTRSET", s |-> "\"i486p\""], [k |-> "cfg", mn |-> "SECTION", s |-> ".text"],
                         [k |-> "cfg", mn |-> "OPTIMIZE", s |-> "1"], [k |-> "cfg", mn |-> "PADDING", s |-> "1"],
                         [k |-> "cfg", mn |-> "SECTION", s |-> ".data"], [k |-> "cfg", mn |-> "SECTION", s |-> ".bss"],
                         [k |-> "cfg", mn |-> "FILE", s |-> "a.nas"], [k |-> "cfg", mn |-> "FORMAT", s |-> "BIN"],
                         [k |-> "bits", v |-> 16], [k |-> "bits", v |-> 32]}

VARIABLE c
Init == c \in Universe
Next == UNCHANGED c
Emit == PrintT(<<"CASE", ToJson(c)>>)
=============================================================================
