------------------------------ MODULE Trace_Asm ------------------------------
(* Trace specification: validates recorded runs of the real gosk (hooks at   *)
(* the end of every pass-1 statement and every ocode emission, plus the      *)
(* final state) against the reference semantics (AsmSem / X86M).             *)
(*                                                                           *)
(* The trace file (env TRACE, ndjson) is a concatenation of cases:           *)
(*   begin  {id, stmts}            abstract program that was rendered + run  *)
(*   p1     one per top-level statement (pass 1)                             *)
(*   cg     one per ocode (code generation)                                  *)
(*   end    final state / output / status                                    *)
(*   rel    relation between earlier cases (C10-C12, C14-C16)                *)
(* Validation is TOTAL: an event the reference semantics does not allow is   *)
(* reported (PrintT <<"REJ", json>>) and the model re-synchronises on what   *)
(* the implementation logged, so the rest of the trace is still checked.     *)
EXTENDS Deviations, Big, Json, IOUtils, TLC

Trace == ndJsonDeserialize(IOEnv.TRACE)
N == Len(Trace)

VARIABLES l,      \* next trace line
          cs,     \* state of the case being validated
          res,    \* results of finished cases: id -> [sha, clean, out, sb, locB, stmts, org]
          refs    \* reference results (C10): program index -> [sha, clean, status]

vars == <<l, cs, res, refs>>

NoCase == [id |-> -1]
EmptyFn == [x \in {} |-> 0]

Put(f, k, v) == [x \in DOMAIN f \cup {k} |-> IF x = k THEN v ELSE f[x]]

IsEvent(e) == l <= N /\ Trace[l].e = e

Report(rs) == \A r \in rs : PrintT(<<"REJ", ToJson(r)>>)

DiagBad(d) == \E j \in 1..Len(d) : d[j] \in {"error", "Error"}

(***************************************************************************)
(* begin                                                                   *)
(***************************************************************************)
T_Begin ==
  /\ IsEvent("begin")
  /\ LET e == Trace[l]  n == Len(e.stmts) IN
     cs' = [id |-> e.id, stmts |-> e.stmts, i |-> 1, k |-> 0, sym |-> EmptyFn, equs |-> << >>,
            locB |-> [j \in 1..n |-> 0], psz |-> [j \in 1..n |-> 0], bitsS |-> [j \in 1..n |-> 16],
            ocB |-> [j \in 1..n |-> 0], ocA |-> [j \in 1..n |-> 0], dg |-> {}, dgp1 |-> {}, anames |-> {},
            sb |-> [j \in 1..n |-> << >>], soff |-> [j \in 1..n |-> -1], cgbits |-> [j \in 1..n |-> 0],
            org |-> 0, bits |-> 16, seen |-> 0, judged |-> 0, unjudged |-> 0, nt |-> e.nt]
  /\ l' = l + 1 /\ UNCHANGED <<res, refs>>

(***************************************************************************)
(* p1: one top-level statement was processed by pass 1                     *)
(***************************************************************************)
\* EQU definitions in force at statement i: every definition made by an earlier statement, the latest one winning
EquAt(c, i) ==
  LET idx == {j \in 1..Len(c.equs) : c.equs[j][1] < i}
      names == {c.equs[j][2] : j \in idx}
  IN [nm \in names |-> c.equs[CHOOSE j \in idx : c.equs[j][2] = nm /\ \A j2 \in idx : c.equs[j2][2] = nm => j2 <= j][3]]

KindOK(s, e) ==
  CASE s.k = "label" -> e.kind = "Label" /\ e.name = s.nm
    [] s.k \in {"equ", "equb"} -> e.kind = "Declare" /\ e.name = s.nm
    [] s.k = "global" -> e.kind = "Export" \/ (e.kind = "Mnemonic" /\ e.op = "GLOBAL")
    [] s.k = "extern" -> e.kind = "Extern" \/ (e.kind = "Mnemonic" /\ e.op = "EXTERN")
    [] s.k \in {"bits", "cfg"} -> e.kind = "Config"
    [] s.k = "org" -> e.op = "ORG"
    [] s.k \in {"data", "datab"} -> e.op = s.mn
    [] s.k = "resb" -> e.op = "RESB"
    [] s.k = "alignb" -> e.op = "ALIGNB"
    [] s.k \in {"ins", "br", "far", "raw"} -> e.kind \in {"Mnemonic", "Opcode"} /\ e.op = s.mn
    [] OTHER -> FALSE

JudgeP1(c, i, e) ==
  LET s == c.stmts[i]
      env == [sym |-> c.sym, equ |-> EquAt(c, i), dollar |-> e.locB]
      d == e.locA - e.locB
      Mk(tags, why) == [id |-> c.id, i |-> i, at |-> "p1", tags |-> tags, why |-> why, sk |-> s.k, op |-> e.op,
                        bits |-> e.bitsB, obs |-> <<e.locB, e.locA, e.ocB, e.ocA>>]
  IN
  IF ~KindOK(s, e) THEN {Mk(<<"SYNC">>, "statement kind differs from the rendered program")}
  ELSE IF DiagBad(e.diag) THEN {}
  ELSE
  (IF e.bitsB # c.bits THEN {Mk(<<"C17">>, "mode in force differs")} ELSE {})
  \cup      \* the origin is state that only ORG may change
  (IF e.dolB # c.org THEN {Mk(<<"C16", "C03">>, "origin in force differs")}
   ELSE IF s.k # "org" /\ e.dolA # e.dolB THEN {Mk(<<"C16", "C03">>, "a statement other than ORG changed the origin")} ELSE {})
  \cup
  CASE s.k = "label" -> IF e.val # e.locB \/ d # 0 \/ e.ocA # e.ocB THEN {Mk(<<"C03">>, "label value is not the location counter")} ELSE {}
    [] s.k \in {"equ", "equb", "cfg", "global", "extern"} ->
         IF d # 0 \/ e.ocA # e.ocB THEN {Mk(<<"C03", "C05", "C11">>, "directive emitted or moved LOC")} ELSE {}
    [] s.k = "bits" ->
         (IF d # 0 \/ e.ocA # e.ocB THEN {Mk(<<"C03", "C05">>, "directive emitted or moved LOC")} ELSE {})
         \cup (IF e.bitsA # s.v THEN {Mk(<<"C17">>, "BITS did not set the mode")} ELSE {})
    [] s.k = "org" ->
         IF e.locA # s.v \/ e.dolA # s.v \/ e.ocA # e.ocB THEN {Mk(<<"C16", "C03", "C05">>, "ORG")} ELSE {}
    [] s.k = "data" ->
         IF d # ItemsLen(s.items, DataWidth(s.mn)) THEN {Mk(<<"C05", "C03">>, "LOC delta of data directive")} ELSE {}
    [] s.k = "datab" ->
         IF d # DataWidth(s.mn) THEN {Mk(<<"C05", "C03">>, "LOC delta of data directive")} ELSE {}
    [] s.k = "resb" ->
         IF Defined(s.e, env) /\ Eval(s.e, env) >= 0 /\ d # Eval(s.e, env) THEN {Mk(<<"C05", "C03">>, "LOC delta of RESB")} ELSE {}
    [] s.k = "alignb" ->
         IF d # AlignPad(e.locB, s.v) THEN {Mk(<<"C05", "C03">>, "LOC delta of ALIGNB")} ELSE {}
    [] OTHER -> {}
  \cup
  (IF EmitsBytes(s) /\ e.ocA = e.ocB THEN {Mk(<<"C07">>, "statement produced no code and no diagnostic")} ELSE {})

T_P1 ==
  /\ IsEvent("p1") /\ cs.id = Trace[l].id
  /\ LET e == Trace[l]  i == e.i + 1 IN
     IF i > Len(cs.stmts) \/ i # cs.i
     THEN /\ Report({[id |-> cs.id, i |-> i, at |-> "p1", tags |-> <<"SYNC">>, why |-> "more statements than rendered", sk |-> "", op |-> e.op, bits |-> 0, obs |-> << >>]})
          /\ cs' = cs
     ELSE
     /\ Report(JudgeP1(cs, i, e))
     /\ cs' = [cs EXCEPT !.i = i + 1,
                         !.sym = IF e.kind = "Label" THEN Put(cs.sym, e.name, e.val) ELSE @,
                         \* EQU names whose value is an ADDRESS: the body mentions `$`, a label, or such a name
                         !.anames = IF cs.stmts[i].k = "equ" /\ (HasDollar(cs.stmts[i].e) \/ Names(cs.stmts[i].e) \cap (@ \cup {cs.stmts[j].nm : j \in {x \in 1..Len(cs.stmts) : cs.stmts[x].k = "label"}}) # {})
                                    THEN @ \cup {cs.stmts[i].nm} ELSE @,
                         !.equs = IF cs.stmts[i].k = "equ" THEN Append(@, <<i, cs.stmts[i].nm, SubstDollar(cs.stmts[i].e, e.locB)>>) ELSE @,
                         !.locB[i] = e.locB, !.psz[i] = e.locA - e.locB, !.bitsS[i] = cs.bits,
                         !.ocB[i] = e.ocB, !.ocA[i] = e.ocA,
                         !.dg = IF DiagBad(e.diag) THEN @ \cup {i} ELSE @,
                         !.dgp1 = IF DiagBad(e.diag) THEN @ \cup {i} ELSE @,
                         !.org = IF cs.stmts[i].k = "org" THEN e.dolA ELSE @,
                         !.bits = IF cs.stmts[i].k = "bits" THEN cs.stmts[i].v ELSE @]
  /\ l' = l + 1 /\ UNCHANGED <<res, refs>>

(***************************************************************************)
(* cg: one ocode was turned into bytes                                     *)
(***************************************************************************)
Owner(c, k) == LET own == {j \in 1..Len(c.stmts) : c.ocB[j] <= k /\ k < c.ocA[j]} IN
               IF own = {} THEN 0 ELSE CHOOSE j \in own : TRUE

JudgeStmt(c, i, bytes, off, cgb) ==
  LET bits == c.bitsS[i]
      env == [sym |-> c.sym, equ |-> EquAt(c, i), dollar |-> c.locB[i]]
      s == ResolveEqu(c.stmts[i], env)
      V(o) == OpVal(o, env)
      Mk(tags, why) == [id |-> c.id, i |-> i, at |-> "cg", tags |-> tags, why |-> why, sk |-> s.k,
                        op |-> IF s.k \in {"ins", "br", "far", "raw", "data"} THEN s.mn ELSE s.k,
                        bits |-> bits, obs |-> bytes, psz |-> c.psz[i], cgbits |-> cgb, dev |-> ""]
      \* branches: the exact step of the known finding D_JmpSize (fixed pass-1 estimate, form chosen by distance)
      IsEquTgt == s.k = "br" /\ s.tgt.t = "l" /\ s.tgt.nm \notin DOMAIN c.sym /\ s.tgt.nm \in DOMAIN env.equ /\ Defined(env.equ[s.tgt.nm], env)
      IsJmpDev == /\ s.k = "br" /\ (s.tgt.t = "n" \/ s.tgt.nm \in DOMAIN c.sym \/ IsEquTgt)
                  /\ c.psz[i] = GoskJmpEstimateT(s.mn, bits, s.tgt.t = "n")
                  /\ bytes = GoskBranchBytes(s.mn, c.org + off,
                                             IF s.tgt.t = "n" THEN s.tgt.v ELSE IF IsEquTgt THEN Eval(env.equ[s.tgt.nm], env) + s.tgt.add ELSE c.sym[s.tgt.nm] + s.tgt.add, cgb)
      size == IF Len(bytes) # c.psz[i]
              THEN {[Mk(<<"C03">>, "pass-1 size differs from emitted length")
                     EXCEPT !.dev = IF s.k = "ins" /\ cgb # bits /\ cgb = c.bits /\ OpsDefined(s.ops, env)
                                       /\ (Denotes(bytes, s, cgb, V) \/ Dev66(bytes, s, cgb, V)) THEN "D_BitsGlobal"
                                    ELSE IF s.k = "far" /\ s.offnm = "" /\ cgb # bits /\ cgb = c.bits /\ FarDenotes(bytes, s.seg, s.off, cgb) THEN "D_BitsGlobal" ELSE ""]}
              ELSE {}
  IN
  CASE s.k = "data" ->
         IF ~ItemsDefined(s.items, env) THEN {Mk(<<"C07">>, "undefined symbol in data assembled silently")}
         ELSE IF bytes # ItemsBytes(s.items, DataWidth(s.mn), env)
              THEN {Mk(IF \E j \in 1..Len(s.items) : s.items[j].t = "e" /\ (UsesSym(s.items[j].e, env) \/ Names(s.items[j].e) \cap c.anames # {})
                       THEN <<"C05", "C03", "C06">> ELSE <<"C05", "C06">>, "data bytes")} \cup size
              ELSE size
    \* a data item whose value (or an intermediate value) lies beyond 32 bits: exact arithmetic of Big.tla; the statement carries
    \* the EQU definitions in force (defs), which the driver renders as the program's EQU statements
    [] s.k = "datab" ->
         IF ~BigOK(s.e, s.defs) THEN size
         ELSE IF bytes # BLE(BigEval(s.e, s.defs), DataWidth(s.mn)) THEN {Mk(<<"C06", "C05", "C11">>, "data bytes (wide arithmetic)")} \cup size ELSE size
    [] s.k = "resb" ->
         IF ~Defined(s.e, env) THEN {Mk(<<"C07">>, "undefined symbol in RESB assembled silently")}
         ELSE IF Eval(s.e, env) < 0 THEN {Mk(<<"C07">>, "negative RESB assembled silently")}
         ELSE IF bytes # Zeros(Eval(s.e, env)) THEN {Mk(<<"C05", "C06">>, "RESB bytes")} \cup size ELSE size
    [] s.k = "alignb" ->    \* (sizes are only comparable when pass 1 and code generation agree on the address)
         IF bytes # Zeros(AlignPad(c.org + off, s.v)) THEN {Mk(<<"C05">>, "ALIGNB padding")} \cup size
         ELSE IF c.locB[i] = c.org + off THEN size ELSE {}
    [] s.k = "ins" ->
         IF ~OpsDefined(s.ops, env) THEN {Mk(<<"C07">>, "undefined symbol in operand assembled silently")}
         ELSE IF ~Judged(s) THEN size
         ELSE IF ~Denotes(bytes, s, bits, V)
              THEN {[Mk(IF cgb # bits /\ cgb \in {16, 32} /\ Denotes(bytes, s, cgb, V) THEN <<"C17">>
                        ELSE (IF HasMem(s.ops) THEN <<"C01", "C02">> ELSE <<"C01">>)
                             \o (IF \E j \in 1..Len(c.stmts[i].ops) : LET o == c.stmts[i].ops[j] IN
                                       (o.t = "l" /\ (o.nm \in DOMAIN c.sym \/ o.nm \in c.anames \/ o.nm = "$"))
                                       \/ (o.t = "m" /\ o.lab # "" /\ (o.lab \in DOMAIN c.sym \/ o.lab \in c.anames))
                                 THEN <<"C03">> ELSE << >>),           \* an embedded label / address value is wrong
                        "bytes do not denote the source instruction")
                     EXCEPT !.dev = IF cgb # bits /\ cgb = c.bits /\ (Denotes(bytes, s, cgb, V) \/ Dev66(bytes, s, cgb, V))
                                    THEN "D_BitsGlobal"     \* everything is emitted in the LAST mode of the file
                                    ELSE IF Dev66(bytes, s, bits, V) THEN "D_Prefix66" ELSE ""]} \cup size
              ELSE size \cup (IF MinLen(s, bits, V) > 0 /\ Len(bytes) > MinLen(s, bits, V)
                              THEN {[Mk(<<"C18">>, "longer than the shortest valid encoding")
                                     EXCEPT !.dev = IF Dev66(bytes, s, bits, V) THEN "D_Prefix66" ELSE ""]} ELSE {})
    [] s.k = "br" -> IF size # {} /\ IsJmpDev THEN {[r EXCEPT !.dev = "D_JmpSize"] : r \in size} ELSE size
    [] s.k = "far" -> size               \* landing is checked at the end, when real offsets are known
    [] s.k = "raw" -> {}
    [] OTHER -> {Mk(<<"C05">>, "directive emitted code")}

T_CG ==
  /\ IsEvent("cg") /\ cs.id = Trace[l].id
  /\ LET e == Trace[l]
         i == Owner(cs, e.k)
     IN
     IF i = 0 THEN /\ Report({[id |-> cs.id, i |-> 0, at |-> "cg", tags |-> <<"SYNC">>, why |-> "ocode without owner", sk |-> "", op |-> e.kind, bits |-> 0, obs |-> e.bytes]})
                   /\ cs' = [cs EXCEPT !.k = e.k + 1]
     ELSE
     LET nb == cs.sb[i] \o e.bytes
         off == IF cs.soff[i] = -1 THEN e.off ELSE cs.soff[i]
         bad == e.err # "" \/ DiagBad(e.diag)
         last == e.k + 1 = cs.ocA[i]
         dg2 == IF bad THEN cs.dg \cup {i} ELSE cs.dg
         \* a diagnosed statement is outside C01-C04/C06 (their statements say so).  C05 has no such clause: a diagnostic
         \* raised only by code generation does not excuse wrong data bytes that were nevertheless put into the image
         judge == last /\ (i \notin dg2 \/ (i \notin cs.dgp1 /\ nb # << >> /\ cs.stmts[i].k \in {"data", "resb", "alignb"}))
     IN
     /\ IF judge THEN Report(JudgeStmt(cs, i, nb, off, e.bits)) ELSE TRUE
     /\ cs' = [cs EXCEPT !.k = e.k + 1, !.sb[i] = nb, !.soff[i] = off, !.cgbits[i] = e.bits, !.dg = dg2,
                         !.judged = IF judge /\ (cs.stmts[i].k # "ins" \/ Judged(cs.stmts[i])) THEN @ + 1 ELSE @,
                         !.unjudged = IF judge /\ cs.stmts[i].k = "ins" /\ ~Judged(cs.stmts[i]) THEN @ + 1 ELSE @]
  /\ l' = l + 1 /\ UNCHANGED <<res, refs>>

(***************************************************************************)
(* end: whole-program layout (labels vs real offsets, branch landing)      *)
(***************************************************************************)
RECURSIVE PrefixLens(_, _)
PrefixLens(sb, j) == IF j = 0 THEN 0 ELSE Len(sb[j]) + PrefixLens(sb, j - 1)

JudgeEnd(c, e) ==
  LET n == Len(c.stmts)
      RealOff(j) == PrefixLens(c.sb, j - 1)                  \* bytes really emitted before statement j
      LabIdx(nm) == {j \in 1..n : c.stmts[j].k = "label" /\ c.stmts[j].nm = nm}
      RealAddr(nm) == c.org + RealOff(CHOOSE j \in LabIdx(nm) : TRUE)
      Mk(i, tags, why, obs) == [id |-> c.id, i |-> i, at |-> "end", tags |-> tags, why |-> why,
                                sk |-> IF i > 0 THEN c.stmts[i].k ELSE "", op |-> IF i > 0 /\ c.stmts[i].k \in {"br", "far"} THEN c.stmts[i].mn ELSE "",
                                bits |-> IF i > 0 THEN c.bitsS[i] ELSE 0, obs |-> obs, dev |-> ""]
      P1Env(j) == [sym |-> c.sym, equ |-> EquAt(c, j), dollar |-> c.locB[j]]
      JmpDev(j) == LET s == c.stmts[j]
                       isequ == s.tgt.t = "l" /\ s.tgt.nm \notin DOMAIN c.sym /\ s.tgt.nm \in DOMAIN EquAt(c, j) /\ Defined(EquAt(c, j)[s.tgt.nm], P1Env(j))
                   IN
                   /\ (s.tgt.t = "n" \/ s.tgt.nm \in DOMAIN c.sym \/ isequ)
                   \* the finding is about BRANCH sizes: it explains a miss only if every mis-sized statement between the branch
                   \* and its target is itself a branch (a miss caused by any other statement's size is not this finding)
                   /\ (s.tgt.t = "l" /\ LabIdx(s.tgt.nm) # {} =>
                         LET t == CHOOSE x \in LabIdx(s.tgt.nm) : TRUE
                             lo == IF t < j THEN t ELSE j
                             hi == IF t > j THEN t - 1 ELSE j
                         IN \A x \in lo..hi : Len(c.sb[x]) = c.psz[x] \/ c.stmts[x].k \in {"br", "org", "label", "alignb"}       \* (padding follows the displaced addresses)
                                            \/ (c.stmts[x].k = "resb" /\ HasDollar(c.stmts[x].e)))
                   /\ c.psz[j] = GoskJmpEstimateT(s.mn, c.bitsS[j], s.tgt.t = "n")
                   /\ c.sb[j] = GoskBranchBytes(s.mn, c.org + RealOff(j),
                                                IF s.tgt.t = "n" THEN s.tgt.v ELSE IF isequ THEN Eval(EquAt(c, j)[s.tgt.nm], P1Env(j)) + s.tgt.add ELSE c.sym[s.tgt.nm] + s.tgt.add, c.cgbits[j])
      hook == IF "out" \in DOMAIN e /\ e.fmt = "" /\ e.out # Flatten(c.sb)
              THEN {Mk(0, <<"HOOK">>, "ocode chunks do not concatenate to the output file", << >>)} ELSE {}
      cnt == IF e.nstmt # n THEN {Mk(0, <<"SYNC">>, "number of statements differs from the rendered program", <<e.nstmt, n>>)} ELSE {}
      labs == {j \in 1..n : c.stmts[j].k = "label"}
      badlabs == {j \in labs : c.stmts[j].nm \in DOMAIN c.sym /\ c.sym[c.stmts[j].nm] # c.org + RealOff(j)}
      labrej == IF badlabs = {} THEN {}
                ELSE LET j == CHOOSE x \in badlabs : \A y \in badlabs : x <= y IN
                     {Mk(j, <<"C03">>, "label value differs from origin + bytes really emitted before it",
                         <<c.sym[c.stmts[j].nm], c.org + RealOff(j)>>)}
      total == IF e.loc - c.org # RealOff(n + 1)
               THEN {Mk(0, <<"C03">>, "final location counter differs from origin + output length", <<e.loc, c.org, RealOff(n + 1)>>)} ELSE {}
      brs == {j \in 1..n : c.stmts[j].k = "br" /\ j \notin c.dg /\ c.sb[j] # << >>}
      \* a branch target is a number, a label, or an EQU name whose definition evaluates (possibly through labels)
      RealSym == [nm \in {c.stmts[x].nm : x \in {y \in 1..n : c.stmts[y].k = "label"}} |-> RealAddr(nm)]
      REnv(j) == [sym |-> RealSym, equ |-> EquAt(c, j), dollar |-> c.org + RealOff(j)]
      TgtOK(j) == LET t == c.stmts[j].tgt IN
                  t.t = "n" \/ LabIdx(t.nm) # {} \/ (t.nm \in DOMAIN EquAt(c, j) /\ Defined(EquAt(c, j)[t.nm], REnv(j)))
      Tgt(j) == LET t == c.stmts[j].tgt IN
                IF t.t = "n" THEN t.v ELSE IF LabIdx(t.nm) # {} THEN RealAddr(t.nm) + t.add ELSE Eval(EquAt(c, j)[t.nm], REnv(j)) + t.add
      brrej == {[Mk(j, IF c.cgbits[j] # c.bitsS[j] /\ c.cgbits[j] \in {16, 32}
                         /\ BranchDenotes(c.sb[j], c.stmts[j].mn, c.org + RealOff(j), Tgt(j), c.cgbits[j])
                      THEN <<"C17">> ELSE <<"C04">>,
                   "branch does not land on its target", <<c.sb[j], c.org + RealOff(j), Tgt(j)>>)
                 EXCEPT !.dev = IF JmpDev(j) THEN "D_JmpSize" ELSE ""]
                : j \in {x \in brs : TgtOK(x) /\ ~BranchDenotes(c.sb[x], c.stmts[x].mn, c.org + RealOff(x), Tgt(x), c.bitsS[x])}}
      undef == {Mk(j, <<"C07">>, "branch to undefined label assembled silently", c.sb[j]) : j \in {x \in brs : ~TgtOK(x)}}
      fars == {j \in 1..n : c.stmts[j].k = "far" /\ j \notin c.dg /\ c.sb[j] # << >>}
      \* the offset of a far pointer is a number or a label (then: the real address of the label)
      FarOffOK(j) == c.stmts[j].offnm = "" \/ LabIdx(c.stmts[j].offnm) # {}
      FarOff(j) == IF c.stmts[j].offnm = "" THEN c.stmts[j].off ELSE RealAddr(c.stmts[j].offnm)
      farundef == {Mk(j, <<"C07">>, "far jump to an undefined label assembled silently", c.sb[j]) : j \in {x \in fars : ~FarOffOK(x)}}
      farrej == {[Mk(j, <<"C04", "C17">>, "far jump does not encode its pointer", c.sb[j])       \* (the pointer width follows the mode in force)
                  EXCEPT !.dev = IF c.cgbits[j] # c.bitsS[j] /\ c.cgbits[j] = c.bits /\ FarDenotes(c.sb[j], c.stmts[j].seg, FarOff(j), c.cgbits[j])
                                 THEN "D_BitsGlobal" ELSE ""]
                 : j \in {x \in fars : FarOffOK(x) /\ ~FarDenotes(c.sb[x], c.stmts[x].seg, FarOff(x), c.bitsS[x])}}
      silent == {Mk(j, <<"C07">>, "statement contributed no bytes and no diagnostic", << >>)
                 : j \in {x \in 1..n : EmitsBytes(c.stmts[x]) /\ x \notin c.dg /\ c.sb[x] = << >> /\ c.ocA[x] > c.ocB[x]}}
  IN
  IF e.status # "ok" \/ c.nt THEN {}        \* (nt: run recorded without hooks, only its result is used)
  ELSE hook \cup cnt \cup
       (IF e.clean /\ c.dg = {}
        THEN (IF \A j \in 1..n : Len(c.sb[j]) = c.psz[j] \/ c.stmts[j].k = "org" THEN labrej \cup total ELSE {})
             \cup brrej \cup farrej \cup farundef \cup undef \cup silent   \* (size mismatches were reported per statement)
        ELSE {})

T_End ==
  /\ IsEvent("end") /\ cs.id = Trace[l].id
  /\ LET e == Trace[l] IN
     /\ Report(JudgeEnd(cs, e))
     /\ PrintT(<<"INFO", ToJson([id |-> cs.id, judged |-> cs.judged, unjudged |-> cs.unjudged, dg |-> Cardinality(cs.dg)])>>)
     /\ res' = Put(res, cs.id, [sha |-> e.sha, clean |-> e.clean /\ cs.dg = {}, status |-> e.status,
                                out |-> IF "out" \in DOMAIN e THEN e.out ELSE << >>, outlen |-> e.outlen,
                                sb |-> cs.sb, stmts |-> cs.stmts, org |-> cs.org, sym |-> cs.sym])
  /\ cs' = NoCase
  /\ l' = l + 1 /\ UNCHANGED refs

(***************************************************************************)
(* rel: relations between finished cases                                   *)
(***************************************************************************)
JudgeRel(e) ==
  LET Mk(why, obs) == [id |-> e.a, i |-> 0, at |-> "rel", tags |-> e.tags, why |-> why, sk |-> e.kind, op |-> "", bits |-> 0, obs |-> obs]
      A == res[e.a]  B == IF "b" \in DOMAIN e THEN res[e.b] ELSE A
  IN
  CASE e.kind = "eq" ->      \* same source meaning => identical result
         IF A.status # B.status \/ A.clean # B.clean THEN {Mk("outcome class differs", <<e.a, e.b>>)}
         ELSE IF A.status = "ok" /\ A.sha # B.sha THEN {Mk("outputs differ", <<e.a, e.b>>)} ELSE {}
    [] e.kind = "eqpre" ->   \* b = a followed by further statements: a's image is a prefix of b's (C11: the EQU twin plus `$`-bodied uses)
         IF ~(A.clean /\ B.clean) THEN (IF A.clean # B.clean THEN {Mk("outcome class differs", <<e.a, e.b>>)} ELSE {})
         ELSE IF Len(A.out) > Len(B.out) \/ Take(B.out, Len(A.out)) # A.out THEN {Mk("outputs differ", <<e.a, e.b>>)} ELSE {}
    [] e.kind = "ref" ->     \* C10: the result of this call equals the fresh-process reference of its program
         LET X == refs[e.p] IN
         IF A.status # X.status \/ A.clean # X.clean THEN {Mk("outcome class differs from the fresh-process reference", <<e.a, e.p>>)}
         ELSE IF A.status = "ok" /\ A.sha # X.sha THEN {Mk("output differs from the fresh-process reference", <<e.a, e.p>>)} ELSE {}
    [] e.kind = "cat" ->     \* out(A;B) = out(A) \o out(B)
         LET AB == res[e.ab] IN
         IF ~(A.clean /\ B.clean) THEN {}
         ELSE IF ~AB.clean \/ AB.out # A.out \o B.out THEN {Mk("concatenation differs", <<e.a, e.b, e.ab>>)} ELSE {}
    [] e.kind = "catany" ->  \* the same for runs that log per-statement messages although the statements are assembled (A has an image):
                             \* only the three runs have to end normally.  (If A leaves no image - unsupported statements, or a policy
                             \* of writing nothing after an error - nothing is claimed.)
         LET AB == res[e.ab] IN
         IF A.status # "ok" \/ B.status # "ok" \/ A.out = << >> THEN {}
         ELSE IF AB.status # "ok" \/ AB.out # A.out \o B.out THEN {Mk("concatenation differs", <<e.a, e.b, e.ab>>)} ELSE {}
    [] e.kind = "org" ->     \* b = a relocated by e.delta: same lengths; statements differ only where they embed absolute addresses
         IF ~(A.clean /\ B.clean) THEN (IF A.clean # B.clean THEN {Mk("outcome class differs", <<e.a, e.b>>)} ELSE {})
         ELSE IF Len(A.sb) - e.sa # Len(B.sb) - e.sb THEN {Mk("statement count differs", <<e.a, e.b>>)}
         ELSE LET bad == {j \in 1..(Len(A.sb) - e.sa) :      \* e.sa / e.sb: leading statements (the ORG itself) not compared
                            \/ Len(A.sb[j + e.sa]) # Len(B.sb[j + e.sb])
                            \/ (~e.abs[j] /\ A.sb[j + e.sa] # B.sb[j + e.sb])}
              IN IF bad # {} THEN {Mk("relocation changed a position-independent statement or a length", <<e.a, e.b, CHOOSE j \in bad : TRUE>>)}
                 ELSE IF \E nm \in DOMAIN A.sym : nm \in DOMAIN B.sym /\ B.sym[nm] - A.sym[nm] # e.delta
                      THEN {Mk("label not relocated by delta", <<e.a, e.b>>)} ELSE {}
    [] OTHER -> {Mk("unknown relation", << >>)}

T_Rel ==
  /\ IsEvent("rel")
  /\ Report(JudgeRel(Trace[l]))
  /\ l' = l + 1 /\ UNCHANGED <<cs, res, refs>>

\* reference result of program p, taken from a fresh process (C10)
T_Ref == /\ IsEvent("ref") /\ refs' = Put(refs, Trace[l].p, [sha |-> Trace[l].sha, clean |-> Trace[l].clean, status |-> Trace[l].status])
         /\ l' = l + 1 /\ UNCHANGED <<cs, res>>

\* release memory of finished cases
T_Flush == /\ IsEvent("flush") /\ res' = EmptyFn /\ l' = l + 1 /\ UNCHANGED <<cs, refs>>

Done == l = N + 1 /\ PrintT("TRACE-CONSUMED") /\ l' = N + 2 /\ UNCHANGED <<cs, res, refs>>

Init == l = 1 /\ cs = NoCase /\ res = EmptyFn /\ refs = EmptyFn
Next == T_Begin \/ T_P1 \/ T_CG \/ T_End \/ T_Rel \/ T_Ref \/ T_Flush \/ Done
Spec == Init /\ [][Next]_vars
=============================================================================
