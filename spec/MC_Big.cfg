INIT Init
NEXT Next
INVARIANTS Inv_Small Inv_Cases
CHECK_DEADLOCK FALSE
