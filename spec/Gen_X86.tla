------------------------------- MODULE Gen_X86 -------------------------------
(* Generator (direction A): instruction cells for C01, C02, C18, C07.        *)
(* Every state is one source statement (abstract syntax of AsmSem/X86M).     *)
EXTENDS Integers, Sequences, FiniteSets, Json, TLC

CONSTANT Part

Rg(w, n) == [t |-> "r", w |-> w, n |-> n]
Sg(n) == [t |-> "s", n |-> n]
Cr(n) == [t |-> "c", n |-> n]
Im(v, sty) == [t |-> "i", v |-> v, sty |-> sty]
M(w, aw, b, x, sc, d, hd) == [t |-> "m", w |-> w, aw |-> aw, b |-> b, x |-> x, sc |-> sc, d |-> d, hd |-> hd, lab |-> "", sty |-> "d"]
Ins(mn, ops) == [k |-> "ins", mn |-> mn, ops |-> ops]

W == {8, 16, 32}
Regs == 0..7
MinInt == -2147483647 - 1

\* the boundary immediates of C01's quantifier (value mod 2^32 as int32, and how it is written)
ImmPos == {Im(0, "d"), Im(1, "d"), Im(127, "h"), Im(128, "h"), Im(255, "h"), Im(256, "h"), Im(32767, "h"), Im(32768, "h"),
           Im(65535, "h"), Im(65536, "h"), Im(2147483647, "h"), Im(MinInt, "h"), Im(-1, "h")}
ImmNeg == {Im(-1, "d"), Im(-127, "d"), Im(-128, "d"), Im(-255, "d"), Im(-256, "d"), Im(-32767, "d"), Im(-32768, "d"),
           Im(-65535, "d"), Im(-65536, "d"), Im(-2147483647, "d"), Im(MinInt, "d")}
Imms == ImmPos \cup ImmNeg
ImmsFew == {Im(0, "d"), Im(1, "d"), Im(127, "h"), Im(128, "h"), Im(-128, "d"), Im(-129, "d"), Im(255, "h"), Im(32767, "h"), Im(65535, "h"), Im(-1, "d"), Im(2147483647, "h")}
\* immediates that are representable in w bits (signed or unsigned)
FitsW(i, w) == CASE w = 8 -> i.v >= -128 /\ i.v <= 255 [] w = 16 -> i.v >= -32768 /\ i.v <= 65535 [] OTHER -> TRUE

\* a small set of memory shapes for the instruction universe (the full product is Part "mem*")
MemFew(w) == {M(w, 16, 3, -1, 1, 0, 0), M(w, 16, 3, 6, 1, 0, 0), M(w, 16, 5, -1, 1, 2, 1), M(w, 16, 6, -1, 1, -1, 1),
              M(w, 16, 5, 7, 1, 300, 1), M(w, 0, -1, -1, 1, 4660, 1),
              M(w, 32, 0, -1, 1, 0, 0), M(w, 32, 3, -1, 1, 8, 1), M(w, 32, 4, -1, 1, 4, 1), M(w, 32, 5, -1, 1, 0, 0),
              M(w, 32, 0, 1, 4, 0, 0), M(w, 32, 6, 7, 2, 256, 1), M(w, 32, 2, -1, 1, -129, 1)}

Alu == {"ADD", "SUB", "CMP", "AND", "OR", "XOR", "MOV", "ADC", "SBB"}
AluI == {"ADD", "SUB", "CMP", "AND", "OR", "XOR"}
Sh == {"SHL", "SHR", "SAR"}
Un == {"NOT", "NEG", "MUL", "DIV", "IDIV", "IMUL", "INC", "DEC"}

NoOps == {"AAA", "AAD", "AAM", "AAS", "CBW", "CDQ", "CLC", "CLD", "CLI", "CLTS", "CMC", "CPUID", "CWD", "CWDE", "DAA", "DAS",
          "EMMS", "F2XM1", "FABS", "FADDP", "FCHS", "FCLEX", "FCOM", "FCOMP", "FCOMPP", "FCOS", "FDECSTP", "FDISI", "FDIVP",
          "FDIVRP", "FENI", "FINCSTP", "FINIT", "FLD1", "FLDL2E", "FLDL2T", "FLDLG2", "FLDLN2", "FLDPI", "FLDZ", "FMULP",
          "FNCLEX", "FNDISI", "FNENI", "FNINIT", "FNOP", "FNSETPM", "FPATAN", "FPREM", "FPREM1", "FPTAN", "FRNDINT",
          "FSCALE", "FSETPM", "FSIN", "FSINCOS", "FSQRT", "FSUBP", "FSUBRP", "FTST", "FUCOM", "FUCOMP", "FUCOMPP", "FXAM",
          "FXCH", "FXTRACT", "FYL2X", "FYL2XP1", "HLT", "INTO", "INVD", "IRET", "IRETD", "LAHF", "LEAVE", "LFENCE", "LOCK",
          "MFENCE", "MONITOR", "MWAIT", "NOP", "PAUSE", "POPA", "POPAD", "POPF", "POPFD", "PUSHA", "PUSHAD", "PUSHF", "PUSHFD",
          "RDMSR", "RDPMC", "RDTSC", "RDTSCP", "REP", "REPE", "REPNE", "RETF", "RETN", "RET", "RSM", "SAHF", "SFENCE", "STC", "STD",
          "STI", "SYSENTER", "SYSEXIT", "UD2", "WAIT", "WBINVD", "WRMSR", "XGETBV", "XSETBV"}

\* ------------------------------------------------------------------ C02: the addressing product
Disp16 == {0, 1, -1, 127, 128, -128, -129, 255, 256, 32767, -32768}
Disp32 == Disp16 \cup {32768, 305419896}
Mem16(w) == {M(w, 16, b, x, 1, d, hd) : b \in {3, 5}, x \in {6, 7}, d \in Disp16, hd \in {1}}
            \cup {M(w, 16, b, x, 1, 0, 0) : b \in {3, 5}, x \in {6, 7}}
            \cup {M(w, 16, b, -1, 1, d, 1) : b \in {3, 5, 6, 7}, d \in Disp16}
            \cup {M(w, 16, b, -1, 1, 0, 0) : b \in {3, 5, 6, 7}}
            \cup {M(w, 0, -1, -1, 1, d, 1) : d \in {0, 1, 255, 4660, 32767, 65535, 65536, 305419896}}
Mem32(w, Bases, Idxs, Scales, Disps) ==
            {M(w, 32, b, x, sc, d, 1) : b \in Bases, x \in Idxs, sc \in Scales, d \in Disps}
            \cup {M(w, 32, b, x, sc, 0, 0) : b \in Bases, x \in Idxs, sc \in Scales}
Valid32(m) == /\ m.x # 4                                    \* ESP cannot be an index
              /\ (m.x = -1 => m.sc = 1)
              /\ ~(m.b = -1 /\ m.x = -1)                  \* absolute addresses imply no address width: part mem16 (aw = 0)
              /\ ~(m.b = -1 /\ m.x # -1 /\ m.sc = 1)     \* textually the same as base-only
Carriers(m8, m16, m32) ==
     {Ins("MOV", <<Rg(16, 1), m16>>), Ins("MOV", <<Rg(32, 2), m32>>), Ins("MOV", <<Rg(8, 3), m8>>),
      Ins("MOV", <<m16, Rg(16, 6)>>), Ins("MOV", <<m8, Rg(8, 5)>>), Ins("MOV", <<m32, Rg(32, 7)>>),
      Ins("MOV", <<[m8 EXCEPT !.w = 8], Im(18, "h")>>), Ins("MOV", <<[m16 EXCEPT !.w = 16], Im(4660, "h")>>),
      Ins("ADD", <<Rg(32, 0), m32>>), Ins("CMP", <<Rg(8, 0), m8>>), Ins("XOR", <<m16, Rg(16, 3)>>),
      Ins("NOT", <<[m16 EXCEPT !.w = 16]>>), Ins("SHL", <<[m8 EXCEPT !.w = 8], Im(3, "d")>>),
      Ins("PUSH", <<[m16 EXCEPT !.w = 16]>>), Ins("POP", <<[m32 EXCEPT !.w = 32]>>)}
CarriersOf(S) == UNION {Carriers(m, m, m) : m \in S}

Universe ==
  CASE Part = "rr" -> {Ins(mn, <<Rg(w, a), Rg(w, b)>>) : mn \in Alu, w \in W, a \in Regs, b \in Regs}
    [] Part = "ri" -> {Ins(mn, <<Rg(w, a), i>>) : mn \in Alu, w \in W, a \in Regs, i \in Imms}
    [] Part = "rm" -> UNION {{Ins(mn, <<Rg(w, a), m>>), Ins(mn, <<m, Rg(w, a)>>)} : mn \in Alu, w \in W, a \in Regs, m \in MemFew(0)}
    [] Part = "mi" -> UNION {{Ins(mn, <<m, i>>) : m \in MemFew(w), i \in {j \in ImmsFew : FitsW(j, w)}} : mn \in Alu, w \in W}
    [] Part = "seg" -> {Ins("MOV", <<Sg(s), Rg(16, r)>>) : s \in {0, 2, 3, 4, 5}, r \in Regs}
                       \cup {Ins("MOV", <<Rg(16, r), Sg(s)>>) : s \in 0..5, r \in Regs}
                       \cup {Ins("MOV", <<Sg(s), m>>) : s \in {0, 2, 3}, m \in MemFew(0)}
                       \cup {Ins("MOV", <<m, Sg(s)>>) : s \in {0, 1, 3}, m \in MemFew(0)}
                       \cup {Ins("MOV", <<Cr(c), Rg(32, r)>>) : c \in {0, 2, 3, 4}, r \in Regs}
                       \cup {Ins("MOV", <<Rg(32, r), Cr(c)>>) : c \in {0, 2, 3, 4}, r \in Regs}
                       \cup ({Ins(mn, <<Sg(s)>>) : mn \in {"PUSH", "POP"}, s \in 0..5} \ {Ins("POP", <<Sg(1)>>)})
    [] Part = "acc" -> UNION {{Ins("MOV", <<Rg(w, 0), M(0, 0, -1, -1, 1, d, 1)>>), Ins("MOV", <<M(0, 0, -1, -1, 1, d, 1), Rg(w, 0)>>)}
                               : w \in W, d \in {0, 4080, 32767, 32768, 65535, 65536, 305419896}}
                       \cup {Ins("IN", <<Rg(w, 0), p>>) : w \in W, p \in {Im(0, "d"), Im(33, "h"), Im(161, "h"), Im(255, "h"), Im(256, "h"), Im(1016, "h"), Im(-1, "d"), Rg(16, 2)}}
                       \cup {Ins("OUT", <<p, Rg(w, 0)>>) : w \in W, p \in {Im(0, "d"), Im(33, "h"), Im(161, "h"), Im(255, "h"), Im(256, "h"), Im(1016, "h"), Im(-1, "d"), Rg(16, 2)}}
                       \cup {Ins(mn, <<Rg(w, 0), i>>) : mn \in AluI, w \in W, i \in Imms}
    [] Part = "stack" -> {Ins(mn, <<Rg(w, r)>>) : mn \in {"PUSH", "POP"}, w \in {16, 32}, r \in Regs}
                         \cup {Ins("PUSH", <<i>>) : i \in Imms}
                         \cup {Ins(mn, <<m>>) : mn \in {"PUSH", "POP"}, m \in MemFew(16) \cup MemFew(32)}
    [] Part = "shift" -> {Ins(mn, <<Rg(w, r), c>>) : mn \in Sh, w \in W, r \in Regs, c \in {Im(1, "d"), Im(2, "d"), Im(7, "d"), Im(31, "d"), Rg(8, 1)}}
                         \cup UNION {{Ins(mn, <<m, c>>) : m \in MemFew(w)} : mn \in Sh, w \in W, c \in {Im(1, "d"), Im(4, "d"), Rg(8, 1)}}
    [] Part = "unary" -> {Ins(mn, <<Rg(w, r)>>) : mn \in Un, w \in W, r \in Regs}
                         \cup UNION {{Ins(mn, <<m>>) : m \in MemFew(w)} : mn \in Un, w \in W}
    [] Part = "imul" -> {Ins("IMUL", <<Rg(w, a), Rg(w, b)>>) : w \in {16, 32}, a \in Regs, b \in Regs}
                        \cup {Ins("IMUL", <<Rg(w, a), i>>) : w \in {16, 32}, a \in Regs, i \in ImmsFew}
                        \cup {Ins("IMUL", <<Rg(w, a), Rg(w, b), i>>) : w \in {16, 32}, a \in {0, 1, 7}, b \in {0, 3, 5}, i \in ImmsFew}
                        \cup UNION {{Ins("IMUL", <<Rg(w, a), m>>) : m \in MemFew(0)} : w \in {16, 32}, a \in {0, 2, 6}}
    [] Part = "misc" -> {Ins("INT", <<Im(v, "h")>>) : v \in {0, 1, 3, 16, 19, 21, 128, 255}}
                        \cup {Ins(mn, <<Im(v, "d")>>) : mn \in {"RET", "RETF"}, v \in {0, 4, 8, 65535}}
                        \cup {Ins("LGDT", <<m>>) : m \in MemFew(0)}
    \* forms of the ISA model that gosk does not implement yet (calibration of the model; gosk must report them)
    [] Part = "ext" -> {Ins("XCHG", <<Rg(w, a), Rg(w, b)>>) : w \in W, a \in {0, 1, 3, 6}, b \in {0, 2, 7}}
                       \cup UNION {{Ins("XCHG", <<Rg(w, a), m>>), Ins("XCHG", <<m, Rg(w, a)>>)} : w \in W, a \in {0, 3}, m \in MemFew(0)}
                       \cup {Ins(mn, <<Rg(w, a), m>>) : mn \in {"LEA", "LDS", "LES", "LSS", "LFS", "LGS"}, w \in {16, 32}, a \in {0, 3, 5}, m \in MemFew(0)}
                       \cup {Ins(mn, <<m>>) : mn \in {"LGDT", "LIDT", "SGDT", "SIDT", "INVLPG", "LLDT", "LTR", "VERR", "VERW", "LMSW", "SLDT", "STR", "SMSW"}, m \in MemFew(0)}
                       \cup {Ins(mn, <<Rg(16, a)>>) : mn \in {"LLDT", "LTR", "VERR", "VERW", "LMSW", "SLDT", "STR", "SMSW"}, a \in {0, 3, 7}}
                       \cup {Ins(mn, <<Rg(32, a)>>) : mn \in {"SLDT", "STR", "SMSW", "BSWAP"}, a \in {0, 3, 7}}
                       \cup {Ins(mn, <<Rg(w, a), Rg(8, b)>>) : mn \in {"MOVZX", "MOVSX"}, w \in {16, 32}, a \in {0, 3}, b \in {0, 1, 7}}
                       \cup {Ins(mn, <<Rg(32, a), Rg(16, b)>>) : mn \in {"MOVZX", "MOVSX"}, a \in {0, 3}, b \in {0, 6}}
                       \cup {Ins(mn, <<Rg(w, a), m>>) : mn \in {"MOVZX", "MOVSX"}, w \in {16, 32}, a \in {0, 3}, m \in MemFew(8)}
                       \cup {Ins(mn, <<Rg(32, a), m>>) : mn \in {"MOVZX", "MOVSX"}, a \in {0, 3}, m \in MemFew(16)}
                       \cup {Ins("SET" \o cc, <<Rg(8, a)>>) : cc \in {"Z", "NZ", "E", "NE", "C", "NC", "B", "AE", "A", "BE", "L", "GE", "G", "LE", "S", "NS", "O", "NO", "P", "NP"}, a \in {0, 5}}
                       \cup {Ins("SET" \o cc, <<m>>) : cc \in {"Z", "NE", "A", "L"}, m \in MemFew(8)}
                       \cup {Ins("ENTER", <<Im(a, "d"), Im(b, "d")>>) : a \in {0, 8, 65535}, b \in {0, 1, 31}}
    \* indirect transfers (calibration only: gosk takes the register name for an undefined label, see D_UndefinedIsZero; C07's matrix has them)
    [] Part = "extj" -> {Ins(mn, <<Rg(w, a)>>) : mn \in {"JMP", "CALL"}, w \in {16, 32}, a \in {0, 3, 6}}
                       \cup UNION {{Ins(mn, <<m>>) : mn \in {"JMP", "CALL"}, m \in MemFew(w)} : w \in {16, 32}}
    [] Part = "noop" -> {Ins(mn, << >>) : mn \in NoOps}
    [] Part = "c18r" -> {Ins(mn, <<Rg(w, a), Im(v, "d")>>) : mn \in AluI, w \in W, a \in Regs, v \in (-130..-126) \cup (125..130) \cup {0, 1, -1}}
                        \cup {Ins(mn, <<Rg(w, a), Im(v, "h")>>) : mn \in AluI, w \in {16, 32}, a \in {0, 3}, v \in {127, 128, 255}}
                        \cup {Ins("MOV", <<Rg(w, a), Im(v, "d")>>) : w \in W, a \in Regs, v \in {0, 1, 127, 128, -1}}
    [] Part = "c18m" -> UNION {{Ins(mn, <<m, Im(v, "d")>>) : m \in MemFew(w), v \in {-129, -128, 127, 128, 1}} : mn \in AluI, w \in W}
    \* memory operands whose displacement is a LABEL (C03: embedded label values)
    [] Part = "lblmem" -> LET ML(w, aw, b, d) == [t |-> "m", w |-> w, aw |-> aw, b |-> b, x |-> -1, sc |-> 1, d |-> d, hd |-> IF d = 0 THEN 0 ELSE 1, lab |-> "lbl0", sty |-> "d"] IN
                          UNION {{Ins("MOV", <<Rg(w, r), ML(0, 0, -1, d)>>), Ins("MOV", <<ML(0, 0, -1, d), Rg(w, r)>>), Ins("ADD", <<Rg(w, r), ML(0, 0, -1, d)>>),
                                  Ins("CMP", <<ML(w, 0, -1, d), Im(1, "d")>>)} : w \in W, r \in {0, 3}, d \in {0, 2}}
                          \cup {Ins("LGDT", <<ML(0, 0, -1, d)>>) : d \in {0, 2}}
                          \cup {Ins("MOV", <<Rg(16, 0), ML(0, 16, b, 0)>>) : b \in {3, 6}} \cup {Ins("MOV", <<Rg(32, 1), ML(0, 32, b, 4)>>) : b \in {0, 5}}
    \* a label as immediate operand (its value depends on the origin: the driver runs these at several origins)
    [] Part = "lblimm" -> {Ins(mn, <<Rg(w, r), [t |-> "l", nm |-> "lbl0", add |-> a]>>) : mn \in {"MOV", "ADD", "CMP"}, w \in {16, 32}, r \in Regs, a \in {0, 2}}
                          \cup {Ins("PUSH", <<[t |-> "l", nm |-> "lbl0", add |-> 0]>>)}
    [] Part = "mem16" -> CarriersOf(Mem16(0))
    [] Part = "mem32a" -> CarriersOf({m \in Mem32(0, {-1} \cup Regs, {-1}, {1}, Disp32) : Valid32(m)})
    [] Part = "mem32b" -> CarriersOf({m \in Mem32(0, {-1} \cup Regs, Regs \ {4}, {1, 2, 4, 8}, {0, 1, -1, 127, 128, -128, -129, 305419896}) : Valid32(m)})

VARIABLE c
Init == c \in Universe
Next == UNCHANGED c
Emit == PrintT(<<"CASE", ToJson(c)>>)
=============================================================================
