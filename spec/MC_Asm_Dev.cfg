CONSTANTS
  Alphabet <- AlphabetSmall
  MaxLen = 3
  Dev = {"D_JmpSize"}
INIT Init
NEXT Next
INVARIANTS Inv_C03 Inv_C04
CHECK_DEADLOCK FALSE
