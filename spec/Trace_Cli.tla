------------------------------ MODULE Trace_Cli ------------------------------
(* Validates observed runs of the real gosk command against Cli!Allowed.      *)
EXTENDS Cli, Json, IOUtils
Trace == ndJsonDeserialize(IOEnv.TRACE)
N == Len(Trace)
VARIABLE l
Obs(e) == [exit |-> e.obs.exit, dstafter |-> e.obs.dstafter, pos |-> e.obs.pos, same |-> e.obs.same]
Sit(e) == [nargs |-> e.sit.nargs, flag |-> e.sit.flag, src |-> e.sit.src, dst |-> e.sit.dst]
Judge(e) == IF Obs(e) \in Allowed(Sit(e)) \/ (e.obs.same /\ [Obs(e) EXCEPT !.pos = FALSE] \in Allowed(Sit(e))) THEN {}
            ELSE {[id |-> e.id, tags |-> <<"C19">>, why |-> "outcome not allowed by the command-line contract", at |-> "cli", i |-> 0, obs |-> e.obs, bits |-> 0]}
TStep == /\ l <= N /\ (\A r \in Judge(Trace[l]) : PrintT(<<"REJ", ToJson(r)>>)) /\ l' = l + 1 /\ UNCHANGED s
TDone == l = N + 1 /\ PrintT("TRACE-CONSUMED") /\ l' = N + 2 /\ UNCHANGED s
TInit == l = 1 /\ s = 0      \* (s: the situation variable of Cli.tla, unused here)
TNext == TStep \/ TDone
TSpec == TInit /\ [][TNext]_<<l, s>>
=============================================================================
