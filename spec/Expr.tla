-------------------------------- MODULE Expr --------------------------------
(* The expression layer of the source grammar (internal/gen/grammar.peg:      *)
(*   AddExp  <- MultExp (WS ('+' / '-') WS MultExp)*                           *)
(*   MultExp <- PrimaryExp (WS ('*' / '/' / '%') WS PrimaryExp)*               *)
(*   PrimaryExp <- Factor / '(' _ AddExp _ ')' )                               *)
(* as a recursive-descent parser over token sequences, the evaluation order   *)
(* it implies (left to right within one level), and the rendering rules of    *)
(* lib/render.py expr_min (parentheses only where precedence / associativity  *)
(* require them, or everywhere).  TLC checks for every tree up to a depth:    *)
(*   Parse(Render(t)) = t  and  Parse(RenderRedundant(t)) = t                 *)
(* so a value that differs from Eval(t) is the assembler's doing, not the     *)
(* renderer's.  Trees: [o |-> "n", v] | [o |-> op, a, b].                      *)
EXTENDS Integers, Sequences, FiniteSets, TLC
CONSTANTS Leaves, MaxDepth

AddOps == {"+", "-"}
MulOps == {"*", "/", "%"}
Prec(o) == IF o \in AddOps THEN 1 ELSE 2
\* (TLC re-evaluates a LET definition at every use inside recursive operators; binding through a singleton set evaluates once)
Once(x) == CHOOSE y \in {x} : TRUE
Leaf(v) == [o |-> "n", v |-> v]
Bin(op, a, b) == [o |-> op, a |-> a, b |-> b]

\* ---------------------------------------------------------------- rendering; tokens: <<"n", v>>, <<"o", op>>, <<"(", 0>>, <<")", 0>>
LP == <<"(", 0>>
RP == <<")", 0>>
Op(o) == <<"o", o>>
RECURSIVE Render(_, _)
Render(t, redundant) ==
  IF t.o = "n" THEN <<<<"n", t.v>>>>
  ELSE LET Side(ch, right) ==
             LET r == Once(Render(ch, redundant)) IN
             IF ch.o # "n" /\ (Prec(ch.o) < Prec(t.o) \/ (right /\ Prec(ch.o) = Prec(t.o)) \/ redundant)
             THEN <<LP>> \o r \o <<RP>> ELSE r
       IN Side(t.a, FALSE) \o <<Op(t.o)>> \o Side(t.b, TRUE)

\* ---------------------------------------------------------------- parsing: each function returns <<tree, rest>>
RECURSIVE PAdd(_), PMul(_), PPrim(_), PAddTail(_, _), PMulTail(_, _)
PPrim(ts) == IF ts = << >> THEN <<[o |-> "err"], << >>>>
             ELSE IF Head(ts) = LP THEN LET r == Once(PAdd(Tail(ts))) IN
                                        IF r[2] # << >> /\ Head(r[2]) = RP THEN <<r[1], Tail(r[2])>> ELSE <<[o |-> "err"], << >>>>
             ELSE IF Head(ts)[1] # "n" THEN <<[o |-> "err"], << >>>>
             ELSE <<Leaf(Head(ts)[2]), Tail(ts)>>
PMulTail(acc, ts) == IF ts # << >> /\ Head(ts)[1] = "o" /\ Head(ts)[2] \in MulOps
                     THEN LET r == Once(PPrim(Tail(ts))) IN PMulTail(Bin(Head(ts)[2], acc, r[1]), r[2])     \* left to right
                     ELSE <<acc, ts>>
PMul(ts) == LET h == Once(PPrim(ts)) IN PMulTail(h[1], h[2])
PAddTail(acc, ts) == IF ts # << >> /\ Head(ts)[1] = "o" /\ Head(ts)[2] \in AddOps
                     THEN LET r == Once(PMul(Tail(ts))) IN PAddTail(Bin(Head(ts)[2], acc, r[1]), r[2])
                     ELSE <<acc, ts>>
PAdd(ts) == LET h == Once(PMul(ts)) IN PAddTail(h[1], h[2])
Parse(ts) == LET r == Once(PAdd(ts)) IN IF r[2] = << >> THEN r[1] ELSE [o |-> "err"]

\* ---------------------------------------------------------------- universe
L == {Leaf(v) : v \in Leaves}
Ops == AddOps \cup MulOps
D1 == {Bin(op, a, b) : op \in Ops, a \in L, b \in L}
D2 == {Bin(op, a, b) : op \in Ops, a \in D1 \cup L, b \in D1 \cup L}
D3 == {Bin(op, a, b) : op \in Ops, a \in D2, b \in L} \cup {Bin(op, a, b) : op \in Ops, a \in L, b \in D2}
Trees == IF MaxDepth = 1 THEN D1 ELSE IF MaxDepth = 2 THEN D2 ELSE D2 \cup D3

VARIABLE t
Init == t \in Trees
Next == UNCHANGED t
Inv_RoundTrip == Parse(Render(t, FALSE)) = t /\ Parse(Render(t, TRUE)) = t
\* minimal rendering really is minimal: removing the outer parentheses of a parenthesised operand changes the tree
Inv_NoErr == Parse(Render(t, FALSE)).o # "err"
=============================================================================
