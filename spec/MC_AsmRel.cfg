CONSTANTS
  Alphabet <- AlphabetRel
  MaxLen = 3
  Dev = {}
SPECIFICATION SpecBuild
INVARIANTS Thm_C15 Thm_C16 Thm_C14 Thm_C11
CHECK_DEADLOCK FALSE
