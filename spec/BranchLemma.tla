----------------------------- MODULE BranchLemma -----------------------------
(* The arithmetic behind C04, for ALL addresses (checked symbolically with    *)
(* Apalache, not only on TLC's boundary sets): whatever the address a of a     *)
(* branch and its target t in a 64 KiB segment, the rel16 form (length n)      *)
(* whose displacement field holds the low 16 bits of t - (a + n), read back as *)
(* a signed number and added to the address of the next instruction modulo     *)
(* 2^16, lands exactly on t; and the rel8 form does so whenever the distance   *)
(* fits in a signed byte.                                                      *)
EXTENDS Integers

VARIABLES
  \* @type: Int;
  a,
  \* @type: Int;
  t,
  \* @type: Int;
  n

Low16(x) == x % 65536
Signed16(u) == IF u >= 32768 THEN u - 65536 ELSE u
Low8(x) == x % 256
Signed8(u) == IF u >= 128 THEN u - 256 ELSE u

Init == a \in 0..65535 /\ t \in 0..65535 /\ n \in {3, 4}
Next == UNCHANGED <<a, t, n>>

Rel16Lands == Low16(a + n + Signed16(Low16(t - (a + n)))) = t
Rel8Lands == (t - (a + 2) >= -128 /\ t - (a + 2) <= 127) => a + 2 + Signed8(Low8(t - (a + 2))) = t
Lemma == Rel16Lands /\ Rel8Lands
=============================================================================
