------------------------------- MODULE MC_Coff -------------------------------
(* The COFF writer of gosk (internal/filefmt/coff.go) as a state machine:      *)
(* placeholder header -> placeholder section headers -> .text -> symbol        *)
(* records -> string table -> patch.  TLC checks, for every bounded input,     *)
(* that the object it produces satisfies WellFormed (C08) and Matches (C09).   *)
EXTENDS Coff

Nm(c, n) == [i \in 1..n |-> c]                       \* a name of n bytes
NamePool == {Nm(97, 1), Nm(98, 8), Nm(99, 9), Nm(100, 17), Nm(99, 9) \o <<120>>}   \* lengths 1, 8, 9, 17, 10 (shares a 9-byte prefix)
Decls == UNION {[1..n -> NamePool] : n \in 0..3}
TextLens == {0, 1, 5}
FileNames == {<< >>, Nm(102, 5), Nm(102, 18), Nm(102, 19)}

VARIABLES ph, pos, textlen, decl, defd, file, recs, strtab, omap, todo, symptr, obj
vars == <<ph, pos, textlen, decl, defd, file, recs, strtab, omap, todo, symptr, obj>>

EmptyFn == [x \in {} |-> 0]
Put(f, k, v) == [x \in DOMAIN f \cup {k} |-> IF x = k THEN v ELSE f[x]]

Init == /\ ph = "hdr" /\ pos = 0 /\ textlen \in TextLens /\ decl \in Decls
        /\ defd \in SUBSET NamePool /\ file \in FileNames
        /\ recs = << >> /\ strtab = << >> /\ omap = EmptyFn /\ todo = << >> /\ symptr = 0 /\ obj = [none |-> TRUE]

Main(short, off, value, sec, class, naux) == [aux |-> FALSE, short |-> short, off |-> off, value |-> value, sec |-> sec, class |-> class, naux |-> naux, raw |-> << >>]
Aux(raw) == [aux |-> TRUE, short |-> << >>, off |-> 0, value |-> 0, sec |-> 0, class |-> 0, naux |-> 0, raw |-> raw]

SecName(k) == CASE k = 1 -> <<46, 116, 101, 120, 116>> [] k = 2 -> <<46, 100, 97, 116, 97>> [] k = 3 -> <<46, 98, 115, 115>>
Addr(n) == Len(n) * 3        \* label value of a defined name (any function of the name will do)

W_Hdr == ph = "hdr" /\ pos' = HdrSize /\ ph' = "secs" /\ UNCHANGED <<textlen, decl, defd, file, recs, strtab, omap, todo, symptr, obj>>
W_Secs == ph = "secs" /\ pos' = pos + 3 * SecHdrSize /\ ph' = "text" /\ UNCHANGED <<textlen, decl, defd, file, recs, strtab, omap, todo, symptr, obj>>
W_Text == /\ ph = "text" /\ pos' = pos + textlen /\ ph' = "fixed" /\ symptr' = pos + textlen
          /\ UNCHANGED <<textlen, decl, defd, file, recs, strtab, omap, todo, obj>>
\* .file + aux, three section symbols + aux
W_Fixed == /\ ph = "fixed"
           /\ recs' = <<Main(<<46, 102, 105, 108, 101>>, 0, 0, -2, 103, 1), Aux(Take(file, 18) \o Zeros(18 - Len(Take(file, 18))))>>
                      \o Flatten([k \in 1..3 |-> <<Main(SecName(k), 0, 0, k, 3, 1), Aux(LE(IF k = 1 THEN textlen ELSE 0, 4) \o Zeros(14))>>])
           /\ todo' = Dedup(decl) /\ ph' = "globals"
           /\ UNCHANGED <<pos, textlen, decl, defd, file, strtab, omap, symptr, obj>>
\* one GLOBAL name: short names inline, long names through the string table (one entry per distinct name)
W_Global == /\ ph = "globals" /\ todo # << >>
            /\ LET n == Head(todo)
                   long == Len(n) > 8
                   known == n \in DOMAIN omap
                   off == IF ~long THEN 0 ELSE IF known THEN omap[n] ELSE Len(strtab) + 4
               IN /\ strtab' = IF long /\ ~known THEN strtab \o n \o <<0>> ELSE strtab
                  /\ omap' = IF long /\ ~known THEN Put(omap, n, off) ELSE omap
                  /\ recs' = Append(recs, Main(IF long THEN << >> ELSE n, off, IF n \in defd THEN Addr(n) ELSE 0, IF n \in defd THEN 1 ELSE 0, 2, 0))
            /\ todo' = Tail(todo)
            /\ UNCHANGED <<ph, pos, textlen, decl, defd, file, symptr, obj>>
\* stable sort of the external symbols: defined by address, undefined last
W_Sort == /\ ph = "globals" /\ todo = << >>
          /\ LET ext == SubSeq(recs, 9, Len(recs))
                 pairs == SortPairs([j \in 1..Len(ext) |-> <<IF ext[j].sec = 0 THEN 1000000 ELSE ext[j].value, ext[j]>>])
             IN recs' = SubSeq(recs, 1, 8) \o [j \in 1..Len(pairs) |-> pairs[j][2]]
          /\ ph' = "symtab" /\ UNCHANGED <<pos, textlen, decl, defd, file, strtab, omap, todo, symptr, obj>>
W_SymTab == ph = "symtab" /\ pos' = pos + SymSize * Len(recs) /\ ph' = "strtab"
            /\ UNCHANGED <<textlen, decl, defd, file, recs, strtab, omap, todo, symptr, obj>>
W_StrTab == ph = "strtab" /\ pos' = pos + 4 + Len(strtab) /\ ph' = "patch"
            /\ UNCHANGED <<textlen, decl, defd, file, recs, strtab, omap, todo, symptr, obj>>
W_Patch == /\ ph = "patch" /\ ph' = "done"
           /\ obj' = [flen |-> pos, machine |-> 332, nsec |-> 3, symptr |-> symptr, nsyms |-> Len(recs), opthdr |-> 0,
                      secs |-> [k \in 1..3 |-> [name |-> SecName(k), size |-> IF k = 1 THEN textlen ELSE 0,
                                                 ptr |-> IF k = 1 THEN HdrSize + 3 * SecHdrSize ELSE 0,
                                                 relptr |-> IF k = 1 THEN symptr ELSE 0, nrel |-> 0, lnptr |-> 0, nln |-> 0]],
                      recs |-> recs, strlen |-> 4 + Len(strtab), strtab |-> strtab, textsha |-> "T"]
           /\ UNCHANGED <<pos, textlen, decl, defd, file, recs, strtab, omap, todo, symptr>>

Next == W_Hdr \/ W_Secs \/ W_Text \/ W_Fixed \/ W_Global \/ W_Sort \/ W_SymTab \/ W_StrTab \/ W_Patch
Spec == Init /\ [][Next]_vars

Run == [decl |-> decl, sym |-> [n \in {x \in defd : \E i \in 1..Len(decl) : decl[i] = x} |-> Addr(n)], flatsha |-> "T", file |-> file, ext |-> << >>]
\* layout invariant while writing: nothing moves once written; the symbol table starts where .text ends
Inv_Layout == (ph \notin {"hdr", "secs", "text"}) => symptr = HdrSize + 3 * SecHdrSize + textlen
Inv_C08 == ph = "done" => WFAll(obj)
Inv_C09 == ph = "done" => MFailed(obj, Run) = {}
=============================================================================
