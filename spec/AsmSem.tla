------------------------------- MODULE AsmSem -------------------------------
(* Reference semantics of NASK source statements, as pure operators shared   *)
(* by the pipeline state machine (Asm.tla, model-checked) and by the trace   *)
(* specification (Trace_Asm.tla, validating runs of the real gosk).          *)
(*                                                                           *)
(* Abstract statements (records; only the fields of their kind are read):    *)
(*   [k |-> "label", nm]            [k |-> "equ", nm, e]                      *)
(*   [k |-> "org", v]               [k |-> "bits", v]      [k |-> "cfg", mn, s]*)
(*   [k |-> "global", names]        [k |-> "extern", names]                  *)
(*   [k |-> "data", mn \in {DB,DW,DD}, items]  item = [t |-> "e", e] | [t |-> "s", b]*)
(*   [k |-> "resb", e]              [k |-> "alignb", v]                      *)
(*   [k |-> "ins", mn, ops]         [k |-> "br", mn, tgt]   [k |-> "far", ...]*)
(*   [k |-> "far", mn, seg, off, offnm]   far pointer; offnm # "" : the offset is that label *)
(*   [k |-> "raw", mn, emits]       opaque statement (matrix universes)      *)
(*   [k |-> "datab", mn, e, defs] [k |-> "equb", nm, e]  data / EQU whose     *)
(*        values pass 32 bits: judged with the exact arithmetic of Big.tla   *)
(*        (Trace_Asm); e may contain [o |-> "nb", neg, mag] literals          *)
(* Expressions: [o |-> "n", v] [o |-> "id", nm] [o |-> "$"]                   *)
(*   [o |-> "+"|"-"|"*"|"/"|"%", a, b]  [o |-> "neg", a]  [o |-> "par", a]   *)
EXTENDS X86M

Sgn(x) == IF x < 0 THEN -1 ELSE 1
Abs(x) == IF x < 0 THEN -x ELSE x
\* C-style (truncating) division and remainder: the "usual rules" of C06
TDiv(a, b) == Sgn(a) * Sgn(b) * (Abs(a) \div Abs(b))
TMod(a, b) == a - b * TDiv(a, b)

\* env = [sym |-> function label -> value, equ |-> function name -> expression, dollar |-> Int]
\* Defined(e, env): every name is known and no divisor is zero (Eval is only used when Defined).
RECURSIVE Eval(_, _)
Eval(e, env) ==
  CASE e.o = "n" -> e.v
    [] e.o = "$" -> env.dollar
    [] e.o = "id" -> IF e.nm \in DOMAIN env.equ THEN Eval(env.equ[e.nm], env) ELSE env.sym[e.nm]
    [] e.o = "par" -> Eval(e.a, env)
    [] e.o = "neg" -> -Eval(e.a, env)
    [] e.o = "+" -> Eval(e.a, env) + Eval(e.b, env)
    [] e.o = "-" -> Eval(e.a, env) - Eval(e.b, env)
    [] e.o = "*" -> Eval(e.a, env) * Eval(e.b, env)
    [] e.o = "/" -> TDiv(Eval(e.a, env), Eval(e.b, env))
    [] e.o = "%" -> TMod(Eval(e.a, env), Eval(e.b, env))

RECURSIVE Defined(_, _)
Defined(e, env) ==
  CASE e.o \in {"n", "$"} -> TRUE
    [] e.o = "id" -> IF e.nm \in DOMAIN env.equ THEN Defined(env.equ[e.nm], env) ELSE e.nm \in DOMAIN env.sym
    [] e.o \in {"par", "neg"} -> Defined(e.a, env)
    [] e.o \in {"/", "%"} -> Defined(e.a, env) /\ Defined(e.b, env) /\ Eval(e.b, env) # 0
    [] OTHER -> Defined(e.a, env) /\ Defined(e.b, env)

\* an EQU body is evaluated where it is DEFINED: `$` inside it is the address of the EQU statement
RECURSIVE SubstDollar(_, _)
SubstDollar(e, a) ==
  CASE e.o = "$" -> [o |-> "n", v |-> a]
    [] e.o \in {"n", "id"} -> e
    [] e.o \in {"par", "neg"} -> [o |-> e.o, a |-> SubstDollar(e.a, a)]
    [] OTHER -> [o |-> e.o, a |-> SubstDollar(e.a, a), b |-> SubstDollar(e.b, a)]


\* does the expression mention `$` (directly)?
RECURSIVE HasDollar(_)
HasDollar(e) ==
  CASE e.o = "$" -> TRUE
    [] e.o \in {"n", "id"} -> FALSE
    [] e.o \in {"par", "neg"} -> HasDollar(e.a)
    [] OTHER -> HasDollar(e.a) \/ HasDollar(e.b)
\* names mentioned by an expression
RECURSIVE Names(_)
Names(e) ==
  CASE e.o = "id" -> {e.nm}
    [] e.o \in {"n", "$"} -> {}
    [] e.o \in {"par", "neg"} -> Names(e.a)
    [] OTHER -> Names(e.a) \cup Names(e.b)

\* does the expression mention a label (i.e. an address), directly or through EQU names?
RECURSIVE UsesSym(_, _)
UsesSym(e, env) ==
  CASE e.o \in {"n"} -> FALSE
    [] e.o = "$" -> TRUE
    [] e.o = "id" -> IF e.nm \in DOMAIN env.equ THEN UsesSym(env.equ[e.nm], env) ELSE TRUE
    [] e.o \in {"par", "neg"} -> UsesSym(e.a, env)
    [] OTHER -> UsesSym(e.a, env) \/ UsesSym(e.b, env)

DataWidth(mn) == CASE mn = "DB" -> 1 [] mn = "DW" -> 2 [] mn = "DD" -> 4

\* number of bytes a data directive occupies (independent of values)
RECURSIVE ItemsLen(_, _)
ItemsLen(items, w) ==
  IF items = << >> THEN 0
  ELSE (IF Head(items).t = "s" THEN Len(Head(items).b) ELSE w) + ItemsLen(Tail(items), w)

ItemsDefined(items, env) == \A j \in 1..Len(items) : items[j].t = "s" \/ Defined(items[j].e, env)

\* bytes of a data directive (all items Defined)
RECURSIVE ItemsBytes(_, _, _)
ItemsBytes(items, w, env) ==
  IF items = << >> THEN << >>
  ELSE LET h == Head(items)
       IN (IF h.t = "s" THEN h.b ELSE LE(Eval(h.e, env), w)) \o ItemsBytes(Tail(items), w, env)

\* fewest zero bytes that bring address a to a multiple of n
AlignPad(a, n) == (n - (a % n)) % n

\* kinds of statement that must contribute bytes to the image
EmitsBytes(s) ==
  \/ s.k \in {"ins", "br", "far"}
  \/ s.k = "data" /\ ItemsLen(s.items, DataWidth(s.mn)) > 0
  \/ s.k = "datab"
  \/ s.k = "raw" /\ s.emits

\* value of an immediate-like source operand under a symbol table (only when OpDefined)
OpVal(o, env) ==
  CASE o.t = "i" -> o.v
    [] o.t = "e" -> Eval(o.e, env)
    [] o.t = "l" -> (IF o.nm = "$" THEN env.dollar
                     ELSE IF o.nm \in DOMAIN env.equ THEN Eval(env.equ[o.nm], env) ELSE env.sym[o.nm]) + o.add
    [] o.t = "m" -> IF o.lab = "" THEN o.d
                    ELSE (IF o.lab \in DOMAIN env.equ THEN Eval(env.equ[o.lab], env) ELSE env.sym[o.lab]) + o.d
    [] OTHER -> 0

OpDefined(o, env) ==
  CASE o.t = "e" -> Defined(o.e, env)
    [] o.t = "l" -> o.nm = "$" \/ o.nm \in DOMAIN env.sym \/ (o.nm \in DOMAIN env.equ /\ Defined(env.equ[o.nm], env))
    [] o.t = "m" -> IF "dx" \in DOMAIN o THEN Defined(o.dx, env) ELSE o.lab = "" \/ o.lab \in DOMAIN env.sym \/ (o.lab \in DOMAIN env.equ /\ Defined(env.equ[o.lab], env))
    [] OTHER -> TRUE

OpsDefined(ops, env) == \A j \in 1..Len(ops) : OpDefined(ops[j], env)

\* operands that name an EQU constant are, by C11, the constant itself
ResolveEqu(s, env) ==
  IF s.k # "ins" THEN s
  ELSE [s EXCEPT !.ops = [j \in 1..Len(s.ops) |->
         LET o == s.ops[j] IN
         IF o.t = "l" /\ o.nm \in DOMAIN env.equ /\ Defined(env.equ[o.nm], env)
         THEN [t |-> "i", v |-> OpVal(o, env), sty |-> "d"]
         ELSE IF o.t = "e" /\ Defined(o.e, env)                       \* a constant expression is, by C06, its value
         THEN [t |-> "i", v |-> Eval(o.e, env), sty |-> "d"]
         ELSE IF o.t = "m" /\ "dx" \in DOMAIN o /\ Defined(o.dx, env)  \* displacement written as an expression
         THEN [t |-> "m", w |-> o.w, aw |-> o.aw, b |-> o.b, x |-> o.x, sc |-> o.sc, d |-> Eval(o.dx, env), lab |-> ""]
         ELSE IF o.t = "m" /\ o.lab # "" /\ o.lab \in DOMAIN env.equ /\ Defined(env.equ[o.lab], env)
         THEN [o EXCEPT !.d = Eval(env.equ[o.lab], env) + o.d, !.lab = ""]
         ELSE o]]

HasMem(ops) == \E j \in 1..Len(ops) : ops[j].t = "m"
HasLabel(ops) == \E j \in 1..Len(ops) : ops[j].t = "l" \/ (ops[j].t = "m" /\ ops[j].lab # "")
=============================================================================
