----------------------------- MODULE Deviations -----------------------------
(* Named deviations: the exact WRONG steps the pinned gosk takes where it    *)
(* does not satisfy the reference semantics (known findings, rule form).     *)
(* Each operator is transcribed from the few lines of gosk that misbehave.   *)
(* A recorded step that the reference rejects is attributed to a deviation   *)
(* only if the deviation predicts it EXACTLY (same bytes, same pass-1 size): *)
(* a different wrong result in the same place is still a violation.          *)
EXTENDS AsmSem

P66(w, b) == IF w \in {16, 32} /\ w # b THEN <<102>> ELSE << >>

\* D_JmpSize: pass1_inst_jmp.go estimateJumpSize / processCalcJcc, x86gen_jmp.go handleJcc, x86gen_call.go
GoskJmpEstimate(mn, b) == IF b = 16 THEN (IF mn = "CALL" THEN 3 ELSE 2) ELSE (IF mn \in {"JMP", "CALL"} THEN 5 ELSE 6)
GoskJmpEstimateT(mn, b, numeric) == IF numeric /\ b = 16 THEN 3 ELSE GoskJmpEstimate(mn, b)
GoskOffsetSize(d) == IF d >= -128 /\ d <= 127 THEN 1 ELSE IF d >= -32768 /\ d <= 32767 THEN 2 ELSE 4
\* what handleJcc / handleCALL emit: form chosen from (target - address of the branch), BEFORE the length is subtracted
GoskBranchBytes(mn, a, t, b) ==
  LET rel == t - a
      cc == CCOf(mn)
  IN IF mn = "CALL"
     THEN (IF FitsS16(rel - 5) THEN <<232>> \o LE(rel - 3, 2) ELSE <<232>> \o LE(rel - 5, 4))
     ELSE IF mn = "JMP"
     THEN CASE GoskOffsetSize(rel) = 1 -> <<235>> \o LE(rel - 2, 1)
            [] GoskOffsetSize(rel) = 2 -> <<233>> \o LE(rel - 3, 2)
            [] OTHER -> P66(32, b) \o <<233>> \o LE(rel - 5, 4)
     ELSE CASE GoskOffsetSize(rel) = 1 -> <<112 + cc>> \o LE(rel - 2, 1)
            [] GoskOffsetSize(rel) = 2 -> <<15, 128 + cc>> \o LE(rel - 4, 2)
            [] OTHER -> <<15, 128 + cc>> \o LE(rel - 6, 4)
=============================================================================
