----------------------------- MODULE Deviations -----------------------------
(* Named deviations: the exact WRONG steps the pinned gosk takes where it    *)
(* does not satisfy the reference semantics (known findings, rule form).     *)
(* Each operator is transcribed from the few lines of gosk that misbehave.   *)
(* A recorded step that the reference rejects is attributed to a deviation   *)
(* only if the deviation predicts it EXACTLY (same bytes, same pass-1 size): *)
(* a different wrong result in the same place is still a violation.          *)
EXTENDS AsmSem

P66(w, b) == IF w \in {16, 32} /\ w # b THEN <<102>> ELSE << >>

\* D_JmpSize: pass1_inst_jmp.go estimateJumpSize / processCalcJcc, x86gen_jmp.go handleJcc, x86gen_call.go
GoskJmpEstimate(mn, b) == IF b = 16 THEN (IF mn = "CALL" THEN 3 ELSE 2) ELSE (IF mn \in {"JMP", "CALL"} THEN 5 ELSE 6)
GoskJmpEstimateT(mn, b, numeric) == IF numeric /\ b = 16 THEN 3 ELSE GoskJmpEstimate(mn, b)
GoskOffsetSize(d) == IF d >= -128 /\ d <= 127 THEN 1 ELSE IF d >= -32768 /\ d <= 32767 THEN 2 ELSE 4
\* what handleJcc / handleCALL emit: form chosen from (target - address of the branch), BEFORE the length is subtracted
GoskBranchBytes(mn, a, t, b) ==
  LET rel == t - a
      cc == CCOf(mn)
  IN IF mn = "CALL"
     THEN (IF FitsS16(rel - 5) THEN <<232>> \o LE(rel - 3, 2) ELSE <<232>> \o LE(rel - 5, 4))
     ELSE IF mn = "JMP"
     THEN CASE GoskOffsetSize(rel) = 1 -> <<235>> \o LE(rel - 2, 1)
            [] GoskOffsetSize(rel) = 2 -> <<233>> \o LE(rel - 3, 2)
            [] OTHER -> P66(32, b) \o <<233>> \o LE(rel - 5, 4)
     ELSE CASE GoskOffsetSize(rel) = 1 -> <<112 + cc>> \o LE(rel - 2, 1)
            [] GoskOffsetSize(rel) = 2 -> <<15, 128 + cc>> \o LE(rel - 4, 2)
            [] OTHER -> <<15, 128 + cc>> \o LE(rel - 6, 4)

\* D_Prefix66: pkg/ng_operand/requires.go Require66h -- the operand-size prefix is decided from an "inherent size"
\* of EACH operand: register width, control register = 32, immediate = smallest signed class that holds the
\* value AS WRITTEN (8/16/32/64), untyped memory = address-register width (else the mode); memory WITH a size
\* keyword contributes nothing.  66h is emitted iff some operand's inherent size is the other mode's size.
ImmClass(v, hexwritten) == IF hexwritten /\ v < 0 THEN 64          \* written as 0x80000000..0xffffffff: beyond int32
                           ELSE IF FitsS8(v) THEN 8 ELSE IF FitsS16(v) THEN 16 ELSE 32
Inherent(o, b, V(_)) ==
  CASE o.t = "r" -> o.w
    [] o.t = "c" -> 32
    [] o.t = "i" -> ImmClass(o.v, o.sty = "h")
    [] o.t = "l" -> 8        \* a label operand reaches codegen by name: it never triggers the prefix
    [] o.t = "m" -> IF o.w # 0 THEN 0 ELSE IF o.aw = 32 THEN 32 ELSE IF o.aw = 16 THEN 16 ELSE b
    [] OTHER -> 0
Gosk66(s, b, V(_)) == \E j \in 1..Len(s.ops) : LET inh == Inherent(s.ops[j], b, V) IN (b = 16 /\ inh = 32) \/ (b = 32 /\ inh = 16)
Ref66(s, b) == LET w == SrcWidth(s.ops) IN w \in {16, 32} /\ w # b

Has66(bytes) == \E i \in 1..NPrefix(bytes) : bytes[i] = 102
First66(bytes) == CHOOSE i \in 1..NPrefix(bytes) : bytes[i] = 102 /\ \A j \in 1..(i - 1) : bytes[j] # 102
Strip66(bytes) == LET i == First66(bytes) IN Sub(bytes, 1, i - 1) \o Sub(bytes, i + 1, Len(bytes))

\* the bytes are exactly what the reference allows EXCEPT for the 66h prefix, which follows gosk's rule
Dev66(bytes, s, b, V(_)) ==
  /\ s.mn \in {"MOV", "ADD", "SUB", "CMP", "AND", "OR", "XOR", "NOT", "SHL", "SHR", "SAR", "IMUL", "PUSH", "POP"}
  /\ ~(s.mn = "MOV" /\ \E j \in 1..Len(s.ops) : s.ops[j].t = "c")
  /\ IF Gosk66(s, b, V)
     THEN Has66(bytes) /\ ~Ref66(s, b) /\ Denotes(Strip66(bytes), s, b, V)
          /\ (MinLen(s, b, V) > 0 => Len(bytes) - 1 <= MinLen(s, b, V))
     ELSE ~Has66(bytes) /\ Ref66(s, b) /\ Denotes(<<102>> \o bytes, s, b, V)
          /\ (MinLen(s, b, V) > 0 => Len(bytes) + 1 <= MinLen(s, b, V))
=============================================================================
