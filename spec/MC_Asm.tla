------------------------------- MODULE MC_Asm -------------------------------
(* Bounded model of the pipeline: all programs up to MaxLen over a small     *)
(* alphabet that exercises labels, forward/backward branches of every form,  *)
(* label immediates, data, reservation, alignment, origin and mode.          *)
EXTENDS Asm

Lab(nm) == [k |-> "label", nm |-> nm]
Br(mn, nm) == [k |-> "br", mn |-> mn, tgt |-> [t |-> "l", nm |-> nm, add |-> 0]]
Num(v) == [o |-> "n", v |-> v]

AlphabetFull ==
  {Lab("a"), Lab("b"), Br("JMP", "a"), Br("JE", "b"), Br("CALL", "a"), Br("JNZ", "a"),
   [k |-> "data", mn |-> "DW", items |-> <<[t |-> "e", e |-> [o |-> "id", nm |-> "a"]]>>],
   [k |-> "ins", mn |-> "MOV", ops |-> <<[t |-> "r", w |-> 16, n |-> 6], [t |-> "l", nm |-> "b", add |-> 0]>>],
   [k |-> "ins", mn |-> "MOV", ops |-> <<[t |-> "r", w |-> 32, n |-> 0], [t |-> "i", v |-> 1, sty |-> "d"]>>],
   [k |-> "ins", mn |-> "NOP", ops |-> << >>],
   [k |-> "resb", e |-> Num(1)], [k |-> "resb", e |-> Num(126)], [k |-> "alignb", v |-> 4],
   [k |-> "org", v |-> 31744], [k |-> "bits", v |-> 32],
   \* a directive that emits nothing, an EQU whose body is the address of its own statement, and a use of that name
   [k |-> "cfg", mn |-> "SECTION", s |-> ".data"],
   [k |-> "equ", nm |-> "q", e |-> [o |-> "+", a |-> [o |-> "$"], b |-> Num(2)]],
   [k |-> "data", mn |-> "DW", items |-> <<[t |-> "e", e |-> [o |-> "id", nm |-> "q"]]>>]}

AlphabetSmall ==
  {Lab("a"), Br("JMP", "a"), Br("JE", "a"), Br("CALL", "a"),
   [k |-> "ins", mn |-> "MOV", ops |-> <<[t |-> "r", w |-> 16, n |-> 6], [t |-> "l", nm |-> "a", add |-> 0]>>],
   [k |-> "ins", mn |-> "NOP", ops |-> << >>], [k |-> "resb", e |-> Num(126)], [k |-> "alignb", v |-> 4],
   [k |-> "org", v |-> 31745], [k |-> "bits", v |-> 32]}
=============================================================================
