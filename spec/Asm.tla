-------------------------------- MODULE Asm --------------------------------
(* The gosk pipeline as a state machine with REFERENCE step semantics:       *)
(*   build (choose a program) -> pass 1 (addresses, sizes, symbols)          *)
(*   -> code generation (one chunk per statement) -> done.                   *)
(* Nondeterministic exactly where the properties leave freedom: any valid    *)
(* encoding of an instruction, any branch form that is valid in the mode.    *)
(* The step-local conditions used by the trace specification (Trace_Asm) are *)
(* the guards of these actions; TLC checks that they entail the end-to-end   *)
(* properties (the Inv_ predicates) over all bounded programs.                       *)
(* `Dev` switches on named deviations (known findings) to show that the      *)
(* invariants are not vacuous: with a deviation on, TLC finds the witness.   *)
EXTENDS Deviations, Json, TLC

CONSTANTS Alphabet,    \* set of abstract statements programs are built from
          MaxLen,      \* maximal program length
          Dev          \* set of enabled deviations, e.g. {"D_JmpSize"}

VARIABLES prog, phase, pc, loc, org, bits, sym, equ, lay, out, diag
vars == <<prog, phase, pc, loc, org, bits, sym, equ, lay, out, diag>>

EmptyFn == [x \in {} |-> 0]
Put(f, k, v) == [x \in DOMAIN f \cup {k} |-> IF x = k THEN v ELSE f[x]]

Labels(p) == {p[j].nm : j \in {i \in 1..Len(p) : p[i].k = "label"}}

(***************************************************************************)
(* Reference encodings for the statement shapes of the model alphabet.     *)
(***************************************************************************)

\* all valid encodings of `MOV r, imm` (register-in-opcode form and C6/C7 form)
EncMovRI(w, n, v, b) ==
  IF w = 8 THEN {<<176 + n>> \o LE(v, 1), <<198, 192 + n>> \o LE(v, 1)}
  ELSE {P66(w, b) \o <<184 + n>> \o LE(v, w \div 8), P66(w, b) \o <<199, 192 + n>> \o LE(v, w \div 8)}

OneByte(mn) == CASE mn = "NOP" -> 144 [] mn = "HLT" -> 244 [] mn = "CLI" -> 250 [] mn = "STI" -> 251 [] mn = "RET" -> 195 [] mn = "CLD" -> 252

EncIns(s, b, env) ==
  IF s.ops = << >> THEN {<<OneByte(s.mn)>>}
  ELSE IF s.mn = "MOV" /\ s.ops[1].t = "r" /\ s.ops[2].t \in {"i", "l"}
       THEN EncMovRI(s.ops[1].w, s.ops[1].n, OpVal(s.ops[2], env), b)
  ELSE IF s.mn = "INT" THEN {<<205>> \o LE(OpVal(s.ops[1], env), 1)}
  ELSE {}

\* branch forms valid in mode b:  <<prefix bytes, opcode bytes, displacement width>>
BranchForms(mn, b) ==
  LET cc == CCOf(mn)
      short == IF mn = "CALL" THEN {} ELSE {<< << >>, IF mn = "JMP" THEN <<235>> ELSE <<112 + cc>>, 1>>}
      nearop == IF mn = "JMP" THEN <<233>> ELSE IF mn = "CALL" THEN <<232>> ELSE <<15, 128 + cc>>
  IN short \cup {<<P66(16, b), nearop, 2>>, <<P66(32, b), nearop, 4>>}
FormLen(f) == Len(f[1]) + Len(f[2]) + f[3]

\* the chunk of a branch at address a, to target t, in form f (defined only if the displacement fits)
BranchFits(f, a, t, b) ==
  LET d == t - (a + FormLen(f)) IN
  CASE f[3] = 1 -> FitsS8(d)
    [] f[3] = 2 -> IF b = 16 THEN TRUE ELSE a + FormLen(f) + d >= 0 /\ a + FormLen(f) + d <= 65535 /\ FitsS16(d)
    [] f[3] = 4 -> TRUE
BranchBytes(f, a, t) == f[1] \o f[2] \o LE(t - (a + FormLen(f)), f[3])

(***************************************************************************)
(* Actions                                                                 *)
(***************************************************************************)
Init == /\ prog = << >> /\ phase = "build" /\ pc = 1 /\ loc = 0 /\ org = 0 /\ bits = 16
        /\ sym = EmptyFn /\ equ = EmptyFn /\ lay = << >> /\ out = << >> /\ diag = {}

WellFormedNext(p, s) ==
  /\ (s.k = "label" => s.nm \notin Labels(p))
  /\ (s.k = "org" => p = << >>)
  /\ (s.k = "bits" => \A j \in 1..Len(p) : p[j].k # "bits" \/ TRUE)

Build(s) == /\ phase = "build" /\ Len(prog) < MaxLen /\ WellFormedNext(prog, s)
            /\ prog' = Append(prog, s)
            /\ UNCHANGED <<phase, pc, loc, org, bits, sym, equ, lay, out, diag>>

\* a program is runnable when every referenced label is defined somewhere in it
Refs(p) == {p[j].tgt.nm : j \in {i \in 1..Len(p) : p[i].k = "br"}}
           \cup UNION {{p[j].ops[m].nm : m \in {q \in 1..Len(p[j].ops) : p[j].ops[q].t = "l"}} : j \in {i \in 1..Len(p) : p[i].k = "ins"}}
           \cup UNION {{p[j].items[m].e.nm : m \in {q \in 1..Len(p[j].items) : p[j].items[q].t = "e" /\ p[j].items[q].e.o = "id"}} : j \in {i \in 1..Len(p) : p[i].k = "data"}}

\* EQU names: usable from the statement after their definition on
EquNames(p) == {p[j].nm : j \in {i \in 1..Len(p) : p[i].k = "equ"}}
RefsAt(p, j) == Refs(<<p[j]>>)
EquBeforeUse(p) == \A j \in 1..Len(p) : \A n \in RefsAt(p, j) \cap EquNames(p) : \E i \in 1..(j - 1) : p[i].k = "equ" /\ p[i].nm = n
Start == /\ phase = "build" /\ prog # << >> /\ Refs(prog) \subseteq (Labels(prog) \cup EquNames(prog)) /\ EquBeforeUse(prog)
         /\ Labels(prog) \cap EquNames(prog) = {}
         /\ phase' = "p1" /\ UNCHANGED <<prog, pc, loc, org, bits, sym, equ, lay, out, diag>>

\* sizes pass 1 may assign to statement s (reference: the length of ANY valid encoding / form)
Sizes(s, b, a) ==
  CASE s.k \in {"label", "equ", "org", "bits", "cfg", "global", "extern"} -> {0}
    [] s.k = "data" -> {ItemsLen(s.items, DataWidth(s.mn))}
    [] s.k = "resb" -> {s.e.v}
    [] s.k = "alignb" -> {AlignPad(a, s.v)}
    [] s.k = "ins" -> IF s.ops # << >> /\ s.mn = "MOV" THEN {Len(e) : e \in EncMovRI(s.ops[1].w, s.ops[1].n, 0, b)}
                      ELSE IF s.mn = "INT" THEN {2} ELSE {1}
    [] s.k = "br" -> IF "D_JmpSize" \in Dev THEN {GoskJmpEstimate(s.mn, b)}
                     ELSE {FormLen(f) : f \in BranchForms(s.mn, b)}

P1 == /\ phase = "p1" /\ pc <= Len(prog)
      /\ LET s == prog[pc] IN
         \E sz \in Sizes(s, bits, loc) :
           /\ lay' = Append(lay, [locB |-> loc, sz |-> sz, bits |-> bits])
           /\ loc' = IF s.k = "org" THEN s.v ELSE loc + sz
           /\ org' = IF s.k = "org" THEN s.v ELSE org
           /\ bits' = IF s.k = "bits" THEN s.v ELSE bits
           /\ sym' = IF s.k = "label" THEN Put(sym, s.nm, loc) ELSE sym
           /\ equ' = IF s.k = "equ" THEN Put(equ, s.nm, SubstDollar(s.e, loc)) ELSE equ
      /\ pc' = pc + 1 /\ UNCHANGED <<prog, phase, out, diag>>

P1Done == /\ phase = "p1" /\ pc = Len(prog) + 1 /\ phase' = "cg" /\ pc' = 1
          /\ UNCHANGED <<prog, loc, org, bits, sym, equ, lay, out, diag>>

\* chunks code generation may emit for statement k (reference: any valid encoding of the assumed size)
Chunks(k) ==
  LET s == prog[k]  L == lay[k]
      env == [sym |-> sym, equ |-> equ, dollar |-> L.locB]
      mode == IF "D_BitsGlobal" \in Dev THEN bits ELSE L.bits     \* deviation: the LAST mode for everything
  IN
  CASE s.k \in {"label", "equ", "org", "bits", "cfg", "global", "extern"} -> {<< >>}
    [] s.k = "data" -> {ItemsBytes(s.items, DataWidth(s.mn), env)}
    [] s.k = "resb" -> {Zeros(s.e.v)}
    [] s.k = "alignb" -> {Zeros(IF "D_AlignbOrg" \in Dev THEN AlignPad(SumLen(out), s.v) ELSE AlignPad(L.locB, s.v))}
    [] s.k = "ins" -> {e \in EncIns(s, mode, env) : "D_BitsGlobal" \in Dev \/ Len(e) = L.sz}
    [] s.k = "br" -> LET t == sym[s.tgt.nm] + s.tgt.add IN
                     IF "D_JmpSize" \in Dev THEN {GoskBranchBytes(s.mn, L.locB, t, mode)}
                     ELSE {BranchBytes(f, L.locB, t) : f \in {g \in BranchForms(s.mn, mode) : FormLen(g) = L.sz /\ BranchFits(g, L.locB, t, mode)}}

CG == /\ phase = "cg" /\ pc <= Len(prog)
      /\ \E c \in Chunks(pc) : out' = Append(out, c)
      /\ pc' = pc + 1 /\ UNCHANGED <<prog, phase, loc, org, bits, sym, equ, lay, diag>>

CGDone == /\ phase = "cg" /\ pc = Len(prog) + 1 /\ phase' = "done"
          /\ UNCHANGED <<prog, pc, loc, org, bits, sym, equ, lay, out, diag>>

Next == (\E s \in Alphabet : Build(s)) \/ Start \/ P1 \/ P1Done \/ CG \/ CGDone
Spec == Init /\ [][Next]_vars

(***************************************************************************)
(* End-to-end properties (stated on the OUTPUT, independently of pass 1)   *)
(***************************************************************************)
RECURSIVE OffsetOf(_, _)
OffsetOf(o, k) == IF k = 0 THEN 0 ELSE Len(o[k]) + OffsetOf(o, k - 1)    \* bytes emitted by statements 1..k
DefIdx(nm) == CHOOSE j \in 1..Len(prog) : prog[j].k = "label" /\ prog[j].nm = nm
RealAddr(nm) == org + OffsetOf(out, DefIdx(nm) - 1)

Inv_C03 == phase = "done" =>
   /\ \A nm \in Labels(prog) : sym[nm] = RealAddr(nm)
   /\ loc - org = OffsetOf(out, Len(prog))
   /\ \A k \in 1..Len(prog) : Len(out[k]) = lay[k].sz

Inv_C04 == phase = "done" =>
   \A k \in 1..Len(prog) : prog[k].k = "br" =>
      BranchDenotes(out[k], prog[k].mn, org + OffsetOf(out, k - 1), RealAddr(prog[k].tgt.nm) + prog[k].tgt.add, lay[k].bits)

Inv_C05 == phase = "done" =>
   \A k \in 1..Len(prog) :
      /\ prog[k].k = "data" => out[k] = ItemsBytes(prog[k].items, DataWidth(prog[k].mn),
                                                   [sym |-> [nm \in Labels(prog) |-> RealAddr(nm)], equ |-> equ, dollar |-> org + OffsetOf(out, k - 1)])
      /\ prog[k].k = "alignb" => (org + OffsetOf(out, k)) % prog[k].v = 0 /\ Len(out[k]) < prog[k].v
      /\ prog[k].k \in {"label", "equ", "org", "bits", "cfg", "global", "extern"} => out[k] = << >>

Inv_C17 == phase = "done" =>
   \A k \in 1..Len(prog) : prog[k].k = "ins" =>
      LET env == [sym |-> [nm \in Labels(prog) |-> RealAddr(nm)], equ |-> equ, dollar |-> org + OffsetOf(out, k - 1)]
          V(o) == OpVal(o, env)
      IN Denotes(out[k], prog[k], lay[k].bits, V)

\* export every completed behaviour's program (direction A) -- used with INVARIANT in generator configs
Export == phase = "done" => PrintT(<<"CASE", ToJson(prog)>>)
=============================================================================
