--------------------------------- MODULE Cli ---------------------------------
(* C19: the command-line contract of gosk as an outcome table.                *)
(* A situation: [nargs (positional arguments), flag ("", "-v"), src, dst]     *)
(*   src: missing, dir, empty, flat, coff, parseerr, pass2fail, crash, sjis, utf8 *)
(*   dst \in {"absent", "garbage", "nodir", "isdir"}                          *)
(* An observation: [exit, dstafter, pos, same]                                *)
(*   dstafter \in {"image", "untouched", "empty", "absent", "other"}          *)
(*   pos: the message names a line:column position; same: the destination      *)
(*   holds exactly the bytes the in-process API produced for the same text     *)
(*   (for sjis/utf8: for the comment-free form).                              *)
EXTENDS Integers, Sequences, FiniteSets, TLC

Srcs == {"missing", "dir", "empty", "flat", "coff", "parseerr", "pass2fail", "crash", "sjis", "utf8"}
Dsts == {"absent", "garbage", "nodir", "isdir"}
Situations == [nargs : 0..3, flag : {"", "-v"}, src : Srcs, dst : Dsts]

Good(src) == src \in {"empty", "flat", "coff", "sjis", "utf8"}
DstCreatable(dst) == dst \in {"absent", "garbage"}
\* what the destination may look like after a run that did NOT succeed: as before, or emptied - never a partial image
Untouched(dst) == CASE dst = "absent" -> {"absent", "empty"} [] dst = "garbage" -> {"untouched", "empty"}
                    [] dst = "nodir" -> {"absent"} [] dst = "isdir" -> {"untouched"}

\* the set of observations the contract allows in situation s
Allowed(s) ==
  IF s.flag = "-v" THEN {[exit |-> 0, dstafter |-> d, pos |-> p, same |-> FALSE] : d \in Untouched(s.dst), p \in BOOLEAN}
  ELSE IF s.nargs < 2 THEN {[exit |-> 16, dstafter |-> d, pos |-> FALSE, same |-> FALSE] : d \in Untouched(s.dst)}
  ELSE IF s.src \in {"missing", "dir"} THEN {[exit |-> 17, dstafter |-> d, pos |-> FALSE, same |-> FALSE] : d \in Untouched(s.dst)}
  ELSE IF s.src = "parseerr" THEN {[exit |-> e, dstafter |-> d, pos |-> TRUE, same |-> FALSE] : e \in 1..255, d \in Untouched(s.dst) \ {"empty"}}
  ELSE IF ~DstCreatable(s.dst) THEN {[exit |-> 17, dstafter |-> d, pos |-> FALSE, same |-> FALSE] : d \in Untouched(s.dst)}
  ELSE IF Good(s.src) THEN {[exit |-> 0, dstafter |-> "image", pos |-> FALSE, same |-> TRUE]}
  ELSE \* pass2fail / crash: the run may fail (any non-zero status) or be diagnosed, but never leaves a partial image
       {[exit |-> e, dstafter |-> d, pos |-> p, same |-> FALSE] : e \in 1..255, d \in Untouched(s.dst), p \in BOOLEAN}
       \cup {[exit |-> 0, dstafter |-> "image", pos |-> FALSE, same |-> TRUE]}

VARIABLE s
Init == s \in Situations
Next == UNCHANGED s
\* totality and determinacy of the exit status where the contract fixes it
Inv_Total == Allowed(s) # {}
Inv_ExitFixed == (s.flag = "" /\ (s.nargs < 2 \/ s.src \in {"missing", "dir"} \/ (Good(s.src) /\ DstCreatable(s.dst))))
                   => Cardinality({o.exit : o \in Allowed(s)}) = 1
Inv_NoPartial == \A o \in Allowed(s) : o.dstafter = "image" => (o.exit = 0 /\ o.same)
=============================================================================
