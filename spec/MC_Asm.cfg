CONSTANTS
  Alphabet <- AlphabetFull
  MaxLen = 3
  Dev = {}
INIT Init
NEXT Next
INVARIANTS Inv_C03 Inv_C04 Inv_C05 Inv_C17
CHECK_DEADLOCK FALSE
