INIT Init
NEXT Next
INVARIANTS Inv_Total Inv_ExitFixed Inv_NoPartial
CHECK_DEADLOCK FALSE
