------------------------------- MODULE Bytes -------------------------------
(* Byte sequences and little-endian fields.  All integers stay inside TLC's  *)
(* int32: a 32-bit quantity is a signed int32 (two's complement) or a        *)
(* sequence of four bytes; comparisons "modulo the operand width" are done   *)
(* on byte sequences.                                                        *)
EXTENDS Integers, Sequences, FiniteSets

Byte == 0..255

IsBytes(s) == \A i \in 1..Len(s) : s[i] \in Byte

Pow256(i) == CASE i = 0 -> 1 [] i = 1 -> 256 [] i = 2 -> 65536 [] i = 3 -> 16777216

\* i-th (0-based) byte of the two's-complement representation of v (TLC: \div floors, % is >= 0)
ByteOf(v, i) == (v \div Pow256(i)) % 256

\* little-endian n-byte representation of (signed or unsigned) int32 v, n \in 1..4
LE(v, n) == [i \in 1..n |-> ByteOf(v, i - 1)]

\* unsigned value of a little-endian sequence of at most 3 bytes (fits int32 always)
ULE(s) == IF Len(s) = 0 THEN 0
          ELSE IF Len(s) = 1 THEN s[1]
          ELSE IF Len(s) = 2 THEN s[1] + 256 * s[2]
          ELSE s[1] + 256 * s[2] + 65536 * s[3]

\* signed value of a little-endian sequence of 1, 2 or 4 bytes
SLE(s) == IF Len(s) = 1 THEN (IF s[1] >= 128 THEN s[1] - 256 ELSE s[1])
          ELSE IF Len(s) = 2 THEN (LET u == s[1] + 256 * s[2] IN IF u >= 32768 THEN u - 65536 ELSE u)
          ELSE LET hi == IF s[4] >= 128 THEN s[4] - 256 ELSE s[4]
               IN  s[1] + 256 * s[2] + 65536 * s[3] + 16777216 * hi

\* sign-extension of an n-byte little-endian field to m >= n bytes
SignExt(s, m) == [i \in 1..m |-> IF i <= Len(s) THEN s[i]
                                  ELSE IF s[Len(s)] >= 128 THEN 255 ELSE 0]

FitsS8(v)  == v >= -128 /\ v <= 127
FitsS16(v) == v >= -32768 /\ v <= 32767

Sub(s, a, b) == IF a > b THEN << >> ELSE SubSeq(s, a, b)      \* 1-based inclusive
Drop(s, n)   == Sub(s, n + 1, Len(s))
Take(s, n)   == Sub(s, 1, IF n > Len(s) THEN Len(s) ELSE n)

RECURSIVE Flatten(_)
Flatten(ss) == IF ss = << >> THEN << >> ELSE Head(ss) \o Flatten(Tail(ss))

RECURSIVE SumLen(_)
SumLen(ss) == IF ss = << >> THEN 0 ELSE Len(Head(ss)) + SumLen(Tail(ss))

Zeros(n) == [i \in 1..n |-> 0]
=============================================================================
