CONSTANTS
  Leaves = {1, 2}
  MaxDepth = 3
INIT Init
NEXT Next
INVARIANTS Inv_RoundTrip Inv_NoErr
CHECK_DEADLOCK FALSE
