----------------------------- MODULE MC_AsmRel -----------------------------
(* Bounded check of the relational theorems of AsmRel over every program    *)
(* that can be built from the alphabet (only the build phase is explored:   *)
(* the theorems quantify over all runs of each program themselves).         *)
EXTENDS AsmRel

Lab(nm) == [k |-> "label", nm |-> nm]
Br(mn, nm) == [k |-> "br", mn |-> mn, tgt |-> [t |-> "l", nm |-> nm, add |-> 0]]
Num(v) == [o |-> "n", v |-> v]

AlphabetRel ==
  {Lab("a"), Lab("b"), Br("JMP", "a"), Br("JE", "b"), Br("CALL", "a"),
   [k |-> "data", mn |-> "DW", items |-> <<[t |-> "e", e |-> [o |-> "id", nm |-> "a"]]>>],
   [k |-> "data", mn |-> "DB", items |-> <<[t |-> "e", e |-> Num(7)], [t |-> "s", b |-> <<104, 105>>]>>],
   [k |-> "ins", mn |-> "MOV", ops |-> <<[t |-> "r", w |-> 16, n |-> 6], [t |-> "l", nm |-> "b", add |-> 0]>>],
   [k |-> "ins", mn |-> "MOV", ops |-> <<[t |-> "r", w |-> 16, n |-> 0], [t |-> "i", v |-> 4660, sty |-> "h"]>>],
   [k |-> "ins", mn |-> "NOP", ops |-> << >>],
   [k |-> "resb", e |-> Num(126)], [k |-> "alignb", v |-> 4]}

NextBuild == \E s \in Alphabet : Build(s)
SpecBuild == Init /\ [][NextBuild]_vars
=============================================================================
