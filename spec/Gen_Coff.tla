------------------------------- MODULE Gen_Coff -------------------------------
(* Generator (direction A) for C08 / C09: GLOBAL declaration lists over name    *)
(* classes, which of them are defined, how the declarations are split, where    *)
(* the labels stand relative to declaration order.                              *)
EXTENDS Integers, Sequences, FiniteSets, Json, TLC
CONSTANT MaxNames
NameIds == {"n1", "n7", "n8", "n9", "n17", "n40", "p9a", "p9b", "sub", "suf", "pre3"}
Decls == UNION {[1..n -> NameIds] : n \in 0..MaxNames}
Universe == {[decl |-> d, undef |-> u, split |-> s, order |-> o] :
               d \in Decls, u \in {"none", "first", "last", "all"}, s \in {"one", "each", "chain"}, o \in {"decl", "reverse", "alias"}}
VARIABLE c
Init == c \in Universe
Next == UNCHANGED c
Emit == PrintT(<<"CASE", ToJson(c)>>)
=============================================================================
