------------------------------- MODULE MC_X86 -------------------------------
(* Round-trip model check of the ISA definition: an ENCODER for effective    *)
(* addresses and for the instruction forms of C18, written independently of  *)
(* the decoder (X86.tla) from the same SDM tables, must produce only byte    *)
(* strings that Decode maps back to the source operand, and MinLen/MemLen    *)
(* must be the length of the shortest of them.                               *)
EXTENDS X86M, TLC

M(aw, b, x, sc, d) == [t |-> "m", w |-> 0, aw |-> aw, b |-> b, x |-> x, sc |-> sc, d |-> d, lab |-> ""]

Rm16(b, x) == CASE b = 3 /\ x = 6 -> 0 [] b = 3 /\ x = 7 -> 1 [] b = 5 /\ x = 6 -> 2 [] b = 5 /\ x = 7 -> 3
                [] b = 6 /\ x = -1 -> 4 [] b = 7 /\ x = -1 -> 5 [] b = 5 /\ x = -1 -> 6 [] b = 3 /\ x = -1 -> 7
                [] b = 6 /\ x = 3 -> 0 [] b = 7 /\ x = 3 -> 1 [] b = 6 /\ x = 5 -> 2 [] b = 7 /\ x = 5 -> 3   \* index written first
ModByte(mod, reg, rm) == mod * 64 + reg * 8 + rm
SS(sc) == CASE sc = 1 -> 0 [] sc = 2 -> 1 [] sc = 4 -> 2 [] sc = 8 -> 3

\* every valid ModR/M (+SIB) (+displacement) encoding of memory operand m with register field r
EncEA(m, r) ==
  IF m.aw = 16 THEN
     IF m.b = -1 /\ m.x = -1 THEN {<<ModByte(0, r, 6)>> \o LE(m.d, 2)}
     ELSE LET rm == Rm16(m.b, m.x) IN
          (IF m.d = 0 /\ rm # 6 THEN {<<ModByte(0, r, rm)>>} ELSE {})
          \cup (IF FitsS8(SLE(LE(m.d, 2))) THEN {<<ModByte(1, r, rm)>> \o LE(m.d, 1)} ELSE {})
          \cup {<<ModByte(2, r, rm)>> \o LE(m.d, 2)}
  ELSE
     LET Plain(b) ==    \* no SIB: base only, base # ESP
            (IF m.d = 0 /\ b # 5 THEN {<<ModByte(0, r, b)>>} ELSE {})
            \cup (IF FitsS8(m.d) THEN {<<ModByte(1, r, b)>> \o LE(m.d, 1)} ELSE {})
            \cup {<<ModByte(2, r, b)>> \o LE(m.d, 4)}
         Sib(b, x, sc) ==     \* x = -1: no index (index field 100)
            LET sib == SS(sc) * 64 + (IF x = -1 THEN 4 ELSE x) * 8 + (IF b = -1 THEN 5 ELSE b) IN
            IF b = -1 THEN {<<ModByte(0, r, 4), sib>> \o LE(m.d, 4)}
            ELSE (IF m.d = 0 /\ b # 5 THEN {<<ModByte(0, r, 4), sib>>} ELSE {})
                 \cup (IF FitsS8(m.d) THEN {<<ModByte(1, r, 4), sib>> \o LE(m.d, 1)} ELSE {})
                 \cup {<<ModByte(2, r, 4), sib>> \o LE(m.d, 4)}
     IN
     IF m.b = -1 /\ m.x = -1 THEN {<<ModByte(0, r, 5)>> \o LE(m.d, 4)} \cup Sib(-1, -1, 1)
     ELSE IF m.x = -1 THEN (IF m.b # 4 THEN Plain(m.b) ELSE {}) \cup Sib(m.b, -1, 1)
     ELSE Sib(m.b, m.x, m.sc)
          \cup (IF m.sc = 1 /\ m.b # -1 /\ m.b # 4 /\ m.x # 4 THEN {} ELSE {})

Disp16 == {0, 1, -1, 127, 128, -128, -129, 255, 256, 32767, -32768}
Disp32 == Disp16 \cup {32768, 65535, 305419896, -2147483647}
Mems == {M(16, b, x, 1, d) : b \in {3, 5}, x \in {6, 7, -1}, d \in Disp16}
        \cup {M(16, b, -1, 1, d) : b \in {6, 7}, d \in Disp16}
        \cup {M(16, -1, -1, 1, d) : d \in Disp16}
        \cup {M(32, b, x, sc, d) : b \in (-1)..7, x \in {-1, 0, 1, 2, 3, 5, 6, 7}, sc \in {1, 2, 4, 8}, d \in Disp32}

Valid(m) == m.aw = 16 \/ ((m.x = -1 => m.sc = 1) /\ ~(m.b = -1 /\ m.x # -1 /\ m.sc = 1))

VARIABLES m, bits
Init == m \in {q \in Mems : Valid(q)} /\ bits \in {16, 32}
Next == UNCHANGED <<m, bits>>

V(o) == IF o.t = "m" THEN o.d ELSE o.v
P67 == IF m.aw # bits THEN <<103>> ELSE << >>
Src(r) == [k |-> "ins", mn |-> "MOV", ops |-> <<[t |-> "r", w |-> bits, n |-> r], m>>]

\* every encoding decodes to the source operand, consumes all bytes
Inv_RoundTrip == \A r \in {0, 3, 7} : \A e \in EncEA(m, r) : Denotes(P67 \o <<139>> \o e, Src(r), bits, V)
\* the encoder offers at least one encoding, and MemLen is the length of the shortest
Inv_MemLen == LET lens == {Len(e) : e \in EncEA(m, 0)} IN
              /\ lens # {}
              /\ (m.b # -1 \/ m.x # -1) => MemLen(m, m.d) = CHOOSE k \in lens : \A j \in lens : k <= j
\* no encoding of one operand is a proper prefix of another encoding of it (decoding is unambiguous)
Inv_PrefixFree == \A a \in EncEA(m, 0), b \in EncEA(m, 0) : a = b \/ Len(a) >= Len(b) \/ Take(b, Len(a)) # a
=============================================================================
