------------------------------ MODULE Trace_Coff ------------------------------
(* Trace specification for C08 / C09: each event carries the abstract object   *)
(* extracted from the file gosk wrote (raw reader), the verdict of an          *)
(* independent COFF reader (Go debug/pe), and the facts of the run (GLOBAL      *)
(* declarations, label values, flat image of the same source, FILE name).       *)
EXTENDS Coff, Json, IOUtils

Trace == ndJsonDeserialize(IOEnv.TRACE)
N == Len(Trace)
VARIABLE l
Judge(e) ==
  LET wf == WFFailed(e.obj)
      symf == [n \in {e.run.symp[j][1] : j \in 1..Len(e.run.symp)} |-> (CHOOSE j \in 1..Len(e.run.symp) : e.run.symp[j][1] = n)]
      sym == [n \in DOMAIN symf |-> e.run.symp[symf[n]][2]]
      mf == MFailed(e.obj, [decl |-> e.run.decl, sym |-> sym, flatsha |-> e.run.flatsha, file |-> e.run.file, ext |-> e.run.ext])
  IN (IF wf # {} THEN {[id |-> e.id, tags |-> <<"C08">>, why |-> "object is not well-formed", at |-> "coff", i |-> 0, obs |-> wf, bits |-> 32]} ELSE {})
     \cup (IF e.pe.err # "" THEN {[id |-> e.id, tags |-> <<"C08">>, why |-> "independent COFF reader rejects the object", at |-> "coff", i |-> 0, obs |-> {-1}, bits |-> 32]} ELSE {})
     \cup (IF wf = {} /\ mf # {} THEN {[id |-> e.id, tags |-> <<"C09">>, why |-> "object does not match the run", at |-> "coff", i |-> 0, obs |-> mf, bits |-> 32]} ELSE {})
     \cup (IF wf = {} /\ e.pe.err = "" /\ e.pe.nsyms # Len(Externals(e.obj)) + 4
           THEN {[id |-> e.id, tags |-> <<"C08">>, why |-> "independent reader sees a different number of symbols", at |-> "coff", i |-> 0, obs |-> {e.pe.nsyms}, bits |-> 32]} ELSE {})
Step == /\ l <= N /\ (\A r \in Judge(Trace[l]) : PrintT(<<"REJ", ToJson(r)>>)) /\ l' = l + 1
Done == l = N + 1 /\ PrintT("TRACE-CONSUMED") /\ l' = N + 2
Init == l = 1
Next == Step \/ Done
Spec == Init /\ [][Next]_l
=============================================================================
