------------------------------ MODULE Trace_Coff ------------------------------
(* Trace specification for C08 / C09: each event carries the abstract object   *)
(* extracted from the file gosk wrote (raw reader), the verdict of an          *)
(* independent COFF reader (Go debug/pe), and the facts of the run (GLOBAL      *)
(* declarations, label values, flat image of the same source, FILE name).       *)
EXTENDS Coff, Json, IOUtils

Trace == ndJsonDeserialize(IOEnv.TRACE)
N == Len(Trace)
VARIABLE l
Judge(e) ==
  LET wf == WFFailed(e.obj)
      symf == [n \in {e.run.symp[j][1] : j \in 1..Len(e.run.symp)} |-> (CHOOSE j \in 1..Len(e.run.symp) : e.run.symp[j][1] = n)]
      sym == [n \in DOMAIN symf |-> e.run.symp[symf[n]][2]]
      mf == MFailed(e.obj, [decl |-> e.run.decl, sym |-> sym, flatsha |-> e.run.flatsha, file |-> e.run.file, ext |-> e.run.ext])
  IN (IF wf # {} THEN {[id |-> e.id, tags |-> <<"C08">>, why |-> "object is not well-formed", at |-> "coff", i |-> 0, obs |-> wf, bits |-> 32]} ELSE {})
     \cup (IF e.pe.err # "" THEN {[id |-> e.id, tags |-> <<"C08">>, why |-> "independent COFF reader rejects the object", at |-> "coff", i |-> 0, obs |-> {-1}, bits |-> 32]} ELSE {})
     \cup (IF wf = {} /\ mf # {} THEN {[id |-> e.id, tags |-> <<"C09">>, why |-> "object does not match the run", at |-> "coff", i |-> 0, obs |-> mf, bits |-> 32]} ELSE {})
     \cup (IF wf = {} /\ e.pe.err = "" /\ e.pe.nsyms # Len(Externals(e.obj)) + 4
           THEN {[id |-> e.id, tags |-> <<"C08">>, why |-> "independent reader sees a different number of symbols", at |-> "coff", i |-> 0, obs |-> {e.pe.nsyms}, bits |-> 32]} ELSE {})
\* C15 on objects: b is a with its symbols renamed by e.map (pairs <<from, to>> of name bytes): same code, same symbol
\* values / sections / order; only names (and therefore the string table) differ
JudgePair(e) ==
  LET Ren(n) == LET hits == {j \in 1..Len(e.map) : e.map[j][1] = n} IN IF hits = {} THEN n ELSE e.map[CHOOSE j \in hits : TRUE][2]
      xa == Externals(e.a)  xb == Externals(e.b)
      ok == /\ e.a.textsha = e.b.textsha /\ Len(xa) = Len(xb) /\ e.a.nsyms = e.b.nsyms
            /\ \A j \in 1..Len(xa) : xb[j].name = Ren(xa[j].name) /\ xb[j].value = xa[j].value /\ xb[j].sec = xa[j].sec
  IN IF ok THEN {} ELSE {[id |-> e.id, tags |-> <<"C15">>, why |-> "renamed object differs in more than symbol names", at |-> "coffpair", i |-> 0, obs |-> {0}, bits |-> 32]}
Step == /\ l <= N
        /\ (\A r \in (IF Trace[l].e = "coffpair" THEN JudgePair(Trace[l]) ELSE Judge(Trace[l])) : PrintT(<<"REJ", ToJson(r)>>))
        /\ l' = l + 1
Done == l = N + 1 /\ PrintT("TRACE-CONSUMED") /\ l' = N + 2
Init == l = 1
Next == Step \/ Done
Spec == Init /\ [][Next]_l
=============================================================================
