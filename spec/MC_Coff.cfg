SPECIFICATION Spec
INVARIANTS Inv_Layout Inv_C08 Inv_C09
CHECK_DEADLOCK FALSE
