------------------------------ MODULE CoffLemma ------------------------------
(* The layout arithmetic C08 rests on, for ALL sizes (checked symbolically    *)
(* with Apalache; MC_Coff only visits bounded inputs).  A WCOFF file is        *)
(*   header(20) | 3 section headers(3*40) | .text(t) | n records(18 each) |    *)
(*   string table (4-byte length field + s bytes)                             *)
(* If the header fields satisfy the consistency equations of                   *)
(* Coff!WellFormed (items 4, 5, 6, 8) then                                     *)
(*  - the regions are pairwise disjoint, in this order, and tile the file     *)
(*    exactly (nothing outside the file, no gap, no overlap);                  *)
(*  - record k (0-based) occupies [symptr + 18k, symptr + 18k + 18) inside     *)
(*    the symbol table, so "symbol count = number of 18-byte records";         *)
(*  - a name stored at string-table offset o (counted from the length field,  *)
(*    as COFF does) with l bytes + NUL lies inside the table iff              *)
(*    4 <= o /\ o + l + 1 <= strlen;                                           *)
(*  - moving .text by growing it by g bytes moves symptr and flen by g and     *)
(*    nothing else (why C09 can compare the object with the flat binary).      *)
EXTENDS Integers

VARIABLES
  \* @type: Int;
  t,        \* size of .text
  \* @type: Int;
  n,        \* number of 18-byte records (main + auxiliary)
  \* @type: Int;
  s,        \* bytes of the string table after the length field
  \* @type: Int;
  k,        \* a record index
  \* @type: Int;
  o,        \* a string-table offset
  \* @type: Int;
  l,        \* a name length
  \* @type: Int;
  g         \* growth of .text

Hdr == 20
SecHdr == 40
Sym == 18

TextPtr == Hdr + 3 * SecHdr
SymPtr(tt) == TextPtr + tt
StrPtr(tt, nn) == SymPtr(tt) + Sym * nn
StrLen(ss) == 4 + ss
FLen(tt, nn, ss) == StrPtr(tt, nn) + StrLen(ss)

Init == /\ t \in 0..1073741824 /\ n \in 8..16777216 /\ s \in 0..1073741824
        /\ k \in 0..16777216 /\ o \in 0..1073741824 /\ l \in 0..65536 /\ g \in 0..65536
Next == UNCHANGED <<t, n, s, k, o, l, g>>

\* the regions, as half-open intervals [lo, hi)
TextLo == TextPtr              TextHi == TextPtr + t
SymLo == SymPtr(t)             SymHi == SymPtr(t) + Sym * n
StrLo == StrPtr(t, n)          StrHi == StrPtr(t, n) + StrLen(s)

Tiles == /\ TextLo = 140 /\ TextHi = SymLo /\ SymHi = StrLo /\ StrHi = FLen(t, n, s)
         /\ TextLo <= TextHi /\ SymLo < SymHi /\ StrLo < StrHi
Inside == /\ TextPtr + t <= FLen(t, n, s)
          /\ SymPtr(t) + Sym * n <= FLen(t, n, s)
          /\ SymPtr(t) >= TextPtr
RecInside == (k < n) => /\ SymLo <= SymPtr(t) + Sym * k
                        /\ SymPtr(t) + Sym * k + Sym <= SymHi
RecCount == (SymHi - SymLo) = Sym * n /\ ((SymHi - SymLo) % Sym = 0)
\* a NUL-terminated name of l bytes at offset o (from the length field) is inside the table
NameInside == (4 <= o /\ o + l + 1 <= StrLen(s)) <=> (StrLo + 4 <= StrLo + o /\ StrLo + o + l + 1 <= StrHi)
\* the minimal object: 8 records (.file + aux, three section symbols + aux), empty .text, empty string table
Minimal == (t = 0 /\ n = 8 /\ s = 0) => FLen(t, n, s) = 288
Grow == /\ SymPtr(t + g) = SymPtr(t) + g
        /\ FLen(t + g, n, s) = FLen(t, n, s) + g
        /\ StrPtr(t + g, n) - SymPtr(t + g) = StrPtr(t, n) - SymPtr(t)
\* every header field fits its width when the file is below 2 GiB (gosk writes 32-bit little-endian fields)
Fits == FLen(t, n, s) <= 1073741824 + 140 + 18 * 16777216 + 4 + 1073741824

Lemma == Tiles /\ Inside /\ RecInside /\ RecCount /\ NameInside /\ Minimal /\ Grow /\ Fits
=============================================================================
