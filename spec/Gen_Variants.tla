----------------------------- MODULE Gen_Variants -----------------------------
(* Generator (direction A) for the transformation universes of the relational  *)
(* properties: layouts (C12), renamings (C15), EQU abstractions (C11).         *)
EXTENDS Integers, Sequences, FiniteSets, Json, TLC

CONSTANT Part      \* "layout1" (all single-gap variations) | "layoutN" (full product, use with -simulate or sampling)
                   \* | "rename" | "equ"

Canon == [ind |-> "\t", sep |-> "\t", comma |-> ", ", brk |-> "", opsp |-> "", trail |-> "", cmt |-> "", cmtsp |-> " ", own |-> 0,
          blank |-> 0, eol |-> "\n", final |-> 1, kwsp |-> " "]
Dom == [ind |-> {"\t", "", "  ", " \t "}, sep |-> {"\t", " ", "   ", " \t"}, comma |-> {", ", ",", " ,", " , ", ",\t"},
        brk |-> {"", " "}, opsp |-> {"", " "}, trail |-> {"", " ", "\t "},
        cmt |-> {"", "; c", "# c", ";a,b;c#d[e]'f", "#;", "#copy", ";x"}, cmtsp |-> {" ", "", "\t"}, own |-> {0, 1}, blank |-> {0, 1, 2},
        eol |-> {"\n", "\r\n", "\r"}, final |-> {0, 1},
        kwsp |-> {" ", "", "\t", "  "}]       \* between a size keyword (BYTE/WORD/DWORD) and the bracket or far pointer after it
Fields == DOMAIN Canon

Layout1 == UNION {{[Canon EXCEPT ![f] = v] : v \in Dom[f]} : f \in Fields}
LayoutN == [ind : Dom.ind, sep : Dom.sep, comma : Dom.comma, brk : Dom.brk, opsp : Dom.opsp, trail : Dom.trail,
            cmt : Dom.cmt, cmtsp : Dom.cmtsp, own : Dom.own, blank : Dom.blank, eol : Dom.eol, final : Dom.final, kwsp : {" "}]
\* a comment directly adjacent to the last token (no blank in between) is a permitted gap of width zero
Layout2 == {[Canon EXCEPT !.cmt = c, !.cmtsp = g, !.eol = e] : c \in Dom.cmt \ {""}, g \in Dom.cmtsp, e \in Dom.eol}

\* renamings: name i of the program is mapped to fam[((i + rot) % Len(fam)) + 1]
X39 == "xxxxxxxxxxxxxxxxxxxxxxxxxxxxxxxxxxxxxxx"
Families == {
  <<"a", "aa", "aaa", "a_", "a1", "_a", "A", "Aa", "aA", "a__">>,
  <<"end_", "range_", "len_", "if_", "else_", "define_", "template_", "nil_", "with_", "block_">>,
  <<X39 \o "a", X39 \o "b", X39 \o "A", X39 \o "_", X39 \o "0", X39, "x", "xx", X39 \o "c", X39 \o "d">>,
  <<"l0", "L0", "lo", "LO", "l_0", "L_0", "lO", "Lo", "l00", "L00">>,
  <<"ax_", "mov_", "eax1", "db_", "equ_", "byte_", "global_", "org_", "dword_", "bits_">>,
  <<"_0", "_1", "_", "__", "_9", "z9", "z", "Z", "z_", "Z9">>,
  <<"CYLS0", "CYLS_", "BASE1", "BASE_", "fin_", "fin2", "L", "L0_", "L1L2", "xL0">>,
  <<"end", "range", "len", "if", "else", "nil", "not", "and", "or", "index">>,
  \* fragments of size keywords, mnemonics and register names (none is itself reserved or has a reserved prefix)
  <<"D", "E", "R", "B", "W", "YT", "WOR", "RD", "OV", "QU">> }
Renamings == {[fam |-> f, rot |-> r] : f \in Families, r \in 0..9}

\* EQU abstraction: which literal sites (by index) are abstracted, chain depth, body style
EquCells == {[sites |-> s, depth |-> d, style |-> st] : s \in (SUBSET (0..5)) \ {{}}, d \in 1..4, st \in {"direct", "arith", "paren"}}

\* EQU-rich usage (C11): how a name is used (alone or inside arithmetic), where, and which name of a definition chain
EquUse == {[form |-> f, pos |-> p, name |-> n] :
             f \in {"Q", "Q*k", "k*Q", "Q+k", "k+Q", "Q-k", "(Q)*k", "Q/k", "Q%k", "Q*R", "Q+R", "-Q+k", "(Q+k)*k"},
             p \in {"imm16", "imm8", "db", "dw", "dd", "resb", "disp", "equbody"}, n \in 0..3}
Universe == CASE Part = "equuse" -> EquUse [] Part = "layout1" -> Layout1 \cup Layout2 [] Part = "layoutN" -> LayoutN [] Part = "rename" -> Renamings [] Part = "equ" -> {c \in EquCells : Cardinality(c.sites) <= 4}

VARIABLE c
Init == c \in Universe
Next == UNCHANGED c
Emit == PrintT(<<"CASE", ToJson(c)>>)
=============================================================================
