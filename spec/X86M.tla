-------------------------------- MODULE X86M --------------------------------
(* Does a decoded instruction (X86!Decode) denote the SOURCE statement?      *)
(*                                                                           *)
(* Source operands (abstract syntax produced by the generator specs):        *)
(*   [t |-> "r", w, n]  [t |-> "s", n]  [t |-> "c", n]                        *)
(*   [t |-> "i", v]           constant; v = value mod 2^32 as signed int32   *)
(*   [t |-> "l", nm, add]     label (+ constant) used as immediate           *)
(*   [t |-> "m", w, aw, b, x, sc, d, lab]  memory operand: size keyword w (0  *)
(*        = none), address width aw implied by its registers (0 = none used), *)
(*        base, index (-1 = none), scale, displacement, lab = "" or a label  *)
(*        whose value is added to the displacement                           *)
(* V(o) gives the int32 value of an "i"/"l" operand (symbol table applied).  *)
EXTENDS X86

\* operand size stated by the source statement: a general register or a size keyword
SrcWidth(ops) ==
  LET ws == {ops[i].w : i \in {j \in 1..Len(ops) : ops[j].t = "r" \/ (ops[j].t = "m" /\ ops[j].w # 0)}}
  IN IF ws = {} THEN 0 ELSE IF Cardinality(ws) = 1 THEN CHOOSE w \in ws : TRUE ELSE -1

Lin(b, x, sc) ==
  IF b # -1 /\ b = x THEN {<<b, 1 + sc>>}
  ELSE (IF b = -1 THEN {} ELSE {<<b, 1>>}) \cup (IF x = -1 THEN {} ELSE {<<x, sc>>})

\* default segment implied by the base register (SS for BP/EBP/ESP bases, DS otherwise)
SegOfBase(aw, b) == IF aw = 16 THEN (IF b = 5 THEN "SS" ELSE "DS")
                    ELSE (IF b \in {4, 5} THEN "SS" ELSE "DS")

\* decoded memory operand dm designates the effective address written as sm
EAMatch(dm, sm, dv) ==
  /\ dm.t = "m"
  /\ dm.sg = -1
  /\ Lin(dm.b, dm.x, dm.sc) = Lin(sm.b, sm.x, sm.sc)
  /\ IF sm.aw # 0
     THEN /\ dm.aw = sm.aw
          /\ dm.d = LE(dv, sm.aw \div 8)
          /\ \/ SegOfBase(dm.aw, dm.b) = SegOfBase(sm.aw, sm.b)
             \/ sm.sc = 1 /\ sm.x # -1 /\ sm.b # -1 /\ SegOfBase(dm.aw, dm.b) = SegOfBase(sm.aw, sm.x)
     ELSE \* absolute address: either address size, provided the address is not truncated
          \/ dm.aw = 32 /\ dm.d = LE(dv, 4)
          \/ dm.aw = 16 /\ dm.d = LE(dv, 2) /\ dv >= -32768 /\ dv <= 65535

OpEq(dop, sop, V(_)) ==
  CASE sop.t = "r" -> dop = R(sop.w, sop.n)
    [] sop.t = "s" -> dop = S(sop.n)
    [] sop.t = "c" -> dop = C(sop.n)
    [] sop.t \in {"i", "l"} -> dop.t = "i" /\ dop.b = LE(V(sop), Len(dop.b))
    [] sop.t = "m" -> EAMatch(dop, sop, V(sop))
    [] OTHER -> FALSE

Alu2 == {"ADD", "OR", "ADC", "SBB", "AND", "SUB", "XOR", "CMP", "TEST"}
Shifts == {"SHL", "SHR", "SAR", "SAL", "ROL", "ROR", "RCL", "RCR"}
Unary == {"NOT", "NEG", "MUL", "DIV", "IDIV", "INC", "DEC"}

CanonNoOp(mn, bits) ==
  CASE mn \in {"REP", "REPE", "REPZ"} -> "REP" [] mn \in {"REPNE", "REPNZ"} -> "REPNE"
    [] mn = "RETN" -> "RET" [] mn = "FWAIT" -> "WAIT"
    [] OTHER -> mn

\* mnemonics of no-operand instructions this module can judge
NoOpJudged == {"DAA", "DAS", "AAA", "AAS", "NOP", "WAIT", "SAHF", "LAHF", "RET", "RETN", "RETF", "LEAVE", "INTO",
               "LOCK", "REPNE", "REP", "REPE", "HLT", "CMC", "CLC", "STC", "CLI", "STI", "CLD", "STD",
               "CBW", "CWDE", "CWD", "CDQ", "PUSHA", "PUSHAD", "POPA", "POPAD", "PUSHF", "PUSHFD", "POPF", "POPFD",
               "IRET", "IRETD", "CLTS", "INVD", "WBINVD", "UD2", "WRMSR", "RDTSC", "RDMSR", "RDPMC", "SYSENTER",
               "SYSEXIT", "SYSCALL", "SYSRET", "EMMS", "CPUID", "RSM", "SETALC", "ICEBP"}

DescTable == {"LGDT", "LIDT", "SGDT", "SIDT"}
Take3(st) == SubSeq(st, 1, 3)
Drop3(st) == SubSeq(st, 4, Len(st))
SetCC(mn) == Len(mn) > 3 /\ Take3(mn) = "SET" /\ CCOf("J" \o Drop3(mn)) # -1
\* the second opcode byte of a 0F B6/B7/BE/BF instruction says whether the source is a byte (even) or a word (odd)
SrcByteOp(bytes, bits) == LET np == NPrefix(bytes) IN Len(bytes) >= np + 2 /\ bytes[np + 2] % 2 = 0

\* mnemonics that have no form without operands
NeedsOperands == Alu2 \cup Shifts \cup Unary \cup DescTable \cup
                 {"MOV", "IMUL", "PUSH", "POP", "IN", "OUT", "INT", "XCHG", "LEA", "LDS", "LES", "LSS", "LFS", "LGS", "MOVZX", "MOVSX", "ENTER",
                  "LLDT", "LTR", "VERR", "VERW", "LMSW", "SLDT", "STR", "SMSW", "INVLPG", "BSWAP", "JMP", "CALL",
                  "FRSTOR", "FSAVE", "FNSAVE", "FLDENV", "FSTENV", "FNSTENV", "FLDCW", "FSTCW", "FNSTCW", "FBLD", "FBSTP", "FILD", "FIST", "FISTP"}

ShiftSame(a, b) == a = b \/ {a, b} = {"SHL", "SAL"}

PushImmOK(b, v) == \/ SignExt(b, 4) = LE(v, 4)
                   \/ Len(b) = 2 /\ b = LE(v, 2) /\ v >= -32768 /\ v <= 65535

(***************************************************************************)
(* Judged(s): the statement is inside the part of the ISA this module      *)
(* models (otherwise the verdict is "unjudged", never a violation).        *)
(***************************************************************************)
Judged(s) ==
  LET mn == s.mn  k == Len(s.ops)
      forms ==
        \/ k >= 1 /\ mn \notin {"RET", "RETN", "RETF", "REP", "REPE", "REPNE", "REPZ", "REPNZ", "LOCK"}
                  /\ (mn \in NoOpJudged \/ FixedBytes(mn) # << >>)     \* no such form exists: must be diagnosed
        \/ mn \in Alu2 \cup {"MOV"} /\ k = 2
        \/ mn \in Shifts /\ k = 2
        \/ mn \in Unary /\ k = 1
        \/ mn = "IMUL" /\ k \in {1, 2, 3}
        \/ mn \in {"PUSH", "POP"} /\ k = 1
        \/ mn \in {"IN", "OUT"} /\ k = 2
        \/ mn = "INT" /\ k = 1
        \/ mn \in {"RET", "RETN", "RETF"} /\ k \in {0, 1}
        \/ mn \in DescTable /\ k = 1
        \/ mn \in {"XCHG", "LEA", "LDS", "LES", "LSS", "LFS", "LGS", "MOVZX", "MOVSX", "ENTER"} /\ k = 2
        \/ mn \in {"LLDT", "LTR", "VERR", "VERW", "LMSW", "SLDT", "STR", "SMSW", "INVLPG", "BSWAP"} /\ k = 1
        \/ SetCC(mn) /\ k = 1
        \/ mn \in {"JMP", "CALL"} /\ k = 1 /\ s.ops[1].t \in {"r", "m"}
        \/ k = 0 /\ (mn \in NoOpJudged \/ FixedBytes(mn) # << >>)
        \/ k = 0 /\ mn \in NeedsOperands          \* no such form exists: must be diagnosed (Denotes is FALSE for it)
  IN (\A j \in 1..k : s.ops[j].t # "txt") /\ forms      \* string / character operands: outside the model

(***************************************************************************)
(* Denotes(bytes, s, bits, V): the byte string, decoded under `bits`, is   *)
(* exactly one instruction and that instruction is the source statement s. *)
(***************************************************************************)
Denotes(bytes, s, bits, V(_)) ==
  LET d  == Decode(bytes, bits)
      mn == s.mn
      o  == s.ops
      k  == Len(o)
      sw == SrcWidth(o)
      WOK == sw = 0 \/ d.w = sw
  IN
  IF k = 0 /\ FixedBytes(mn) # << >> THEN bytes = FixedBytes(mn)
  ELSE
  /\ d.ok /\ d.len = Len(bytes)
  /\ CASE k = 0 -> d.mn = CanonNoOp(mn, bits) /\ d.ops = << >>
       [] mn = "MOV" /\ k = 2 ->
            /\ d.mn = "MOV" /\ Len(d.ops) = 2
            /\ IF o[1].t = "s"
               THEN /\ d.ops[1] = S(o[1].n)
                    /\ IF o[2].t = "r" THEN d.ops[2].t = "r" /\ d.ops[2].n = o[2].n /\ o[2].w \in {16, 32}
                       ELSE OpEq(d.ops[2], o[2], V)
               ELSE IF o[2].t = "s"
               THEN /\ d.ops[2] = S(o[2].n)
                    \* MOV r16,Sreg: assemblers (NASM: with 66h, GNU/LLVM: without) disagree on the prefix in the other
                    \* mode; both forms store the selector in the low word, so either operand size is accepted
                    /\ IF o[1].t = "r" THEN d.ops[1].t = "r" /\ d.ops[1].n = o[1].n /\ o[1].w \in {16, 32}
                       ELSE OpEq(d.ops[1], o[1], V)
               ELSE IF o[1].t = "c" \/ o[2].t = "c"
               THEN OpEq(d.ops[1], o[1], V) /\ OpEq(d.ops[2], o[2], V)
               ELSE WOK /\ sw # -1 /\ OpEq(d.ops[1], o[1], V) /\ OpEq(d.ops[2], o[2], V)
       [] mn \in Alu2 /\ k = 2 ->
            /\ d.mn = mn /\ Len(d.ops) = 2 /\ WOK /\ sw # -1
            /\ OpEq(d.ops[1], o[1], V) /\ OpEq(d.ops[2], o[2], V)
       [] mn \in Shifts /\ k = 2 ->
            /\ ShiftSame(d.mn, mn) /\ Len(d.ops) = 2
            /\ (LET w1 == SrcWidth(<<o[1]>>) IN w1 = 0 \/ d.w = w1)
            /\ OpEq(d.ops[1], o[1], V)
            /\ IF o[2].t = "r" THEN d.ops[2] = R(8, 1) /\ o[2] = R(8, 1)
               ELSE d.ops[2].t = "i" /\ d.ops[2].b = LE(V(o[2]), 1)
       [] mn \in Unary /\ k = 1 -> d.mn = mn /\ Len(d.ops) = 1 /\ WOK /\ OpEq(d.ops[1], o[1], V)
       [] mn = "IMUL" /\ k = 1 -> d.mn = mn /\ Len(d.ops) = 1 /\ WOK /\ OpEq(d.ops[1], o[1], V)
       [] mn = "IMUL" /\ k = 2 ->
            /\ d.mn = mn /\ WOK /\ sw # -1
            /\ IF o[2].t \in {"i", "l"}
               THEN Len(d.ops) = 3 /\ OpEq(d.ops[1], o[1], V) /\ OpEq(d.ops[2], o[1], V) /\ OpEq(d.ops[3], o[2], V)
               ELSE Len(d.ops) = 2 /\ OpEq(d.ops[1], o[1], V) /\ OpEq(d.ops[2], o[2], V)
       [] mn = "IMUL" /\ k = 3 ->
            /\ d.mn = mn /\ WOK /\ sw # -1 /\ Len(d.ops) = 3
            /\ OpEq(d.ops[1], o[1], V) /\ OpEq(d.ops[2], o[2], V) /\ OpEq(d.ops[3], o[3], V)
       [] mn \in {"PUSH", "POP"} /\ k = 1 ->
            /\ d.mn = mn /\ Len(d.ops) = 1
            /\ CASE o[1].t = "r" -> d.ops[1] = R(o[1].w, o[1].n) /\ d.w = o[1].w
                 [] o[1].t = "s" -> d.ops[1] = S(o[1].n) /\ d.w = bits
                 [] o[1].t \in {"i", "l"} -> d.ops[1].t = "i" /\ PushImmOK(d.ops[1].b, V(o[1]))
                 [] o[1].t = "m" -> OpEq(d.ops[1], o[1], V) /\ (IF o[1].w # 0 THEN d.w = o[1].w ELSE d.w = bits)
                 [] OTHER -> FALSE
       [] mn = "IN" /\ k = 2 ->
            /\ d.mn = "IN" /\ Len(d.ops) = 2 /\ o[1].t = "r" /\ o[1].n = 0 /\ d.ops[1] = R(o[1].w, 0)
            /\ IF o[2].t = "r" THEN o[2] = R(16, 2) /\ d.ops[2] = R(16, 2)
               ELSE d.ops[2].t = "i" /\ V(o[2]) \in 0..255 /\ d.ops[2].b = LE(V(o[2]), 1)      \* a port number is an unsigned byte
       [] mn = "OUT" /\ k = 2 ->
            /\ d.mn = "OUT" /\ Len(d.ops) = 2 /\ o[2].t = "r" /\ o[2].n = 0 /\ d.ops[2] = R(o[2].w, 0)
            /\ IF o[1].t = "r" THEN o[1] = R(16, 2) /\ d.ops[1] = R(16, 2)
               ELSE d.ops[1].t = "i" /\ V(o[1]) \in 0..255 /\ d.ops[1].b = LE(V(o[1]), 1)
       [] mn = "INT" /\ k = 1 ->
            \/ d.mn = "INT" /\ Len(d.ops) = 1 /\ V(o[1]) \in 0..255 /\ d.ops[1].b = LE(V(o[1]), 1)
            \/ d.mn = "INT3" /\ V(o[1]) = 3
       [] mn \in {"RET", "RETN", "RETF"} /\ k = 1 ->
            /\ d.mn = (IF mn = "RETF" THEN "RETF" ELSE "RET")
            /\ \/ Len(d.ops) = 1 /\ d.ops[1].b = LE(V(o[1]), 2)
               \/ Len(d.ops) = 0 /\ V(o[1]) = 0             \* RET 0 releases nothing: same as RET
       [] mn \in DescTable /\ k = 1 -> d.mn = mn /\ o[1].t = "m" /\ OpEq(d.ops[1], o[1], V)
       \* --- forms gosk does not implement yet (it reports them); judged as soon as it emits bytes for them silently
       [] mn = "XCHG" /\ k = 2 ->
            \/ /\ d.mn = "XCHG" /\ Len(d.ops) = 2 /\ WOK /\ sw # -1 /\ (o[1].t = "r" \/ o[2].t = "r")
               /\ \/ OpEq(d.ops[1], o[1], V) /\ OpEq(d.ops[2], o[2], V)
                  \/ OpEq(d.ops[1], o[2], V) /\ OpEq(d.ops[2], o[1], V)
            \/ d.mn = "NOP" /\ o[1].t = "r" /\ o[1] = o[2] /\ o[1].n = 0 /\ o[1].w \in {16, 32}      \* XCHG (E)AX,(E)AX is the encoding of NOP
       [] mn \in {"LEA", "LDS", "LES", "LSS", "LFS", "LGS"} /\ k = 2 ->
            /\ d.mn = mn /\ Len(d.ops) = 2 /\ o[1].t = "r" /\ o[1].w \in {16, 32} /\ o[2].t = "m"
            /\ d.ops[1] = R(o[1].w, o[1].n) /\ d.w = o[1].w /\ EAMatch(d.ops[2], o[2], V(o[2]))
       [] mn \in {"LLDT", "LTR", "VERR", "VERW", "LMSW"} /\ k = 1 ->
            /\ d.mn = mn /\ Len(d.ops) = 1
            /\ IF o[1].t = "r" THEN o[1].w = 16 /\ d.ops[1] = R(16, o[1].n) ELSE o[1].t = "m" /\ o[1].w \in {0, 16} /\ OpEq(d.ops[1], o[1], V)
       [] mn \in {"SLDT", "STR", "SMSW"} /\ k = 1 ->
            /\ d.mn = mn /\ Len(d.ops) = 1
            /\ IF o[1].t = "r" THEN o[1].w \in {16, 32} /\ d.ops[1] = R(o[1].w, o[1].n) ELSE o[1].t = "m" /\ o[1].w \in {0, 16} /\ OpEq(d.ops[1], o[1], V)
       [] mn = "INVLPG" /\ k = 1 -> d.mn = mn /\ o[1].t = "m" /\ OpEq(d.ops[1], o[1], V)
       [] mn \in {"MOVZX", "MOVSX"} /\ k = 2 ->      \* the source width must be stated: a register or a size keyword
            /\ d.mn = mn /\ Len(d.ops) = 2 /\ o[1].t = "r" /\ o[1].w \in {16, 32} /\ d.ops[1] = R(o[1].w, o[1].n) /\ d.w = o[1].w
            /\ o[2].t \in {"r", "m"} /\ o[2].w \in {8, 16} /\ o[2].w < o[1].w
            /\ IF o[2].t = "r" THEN d.ops[2] = R(o[2].w, o[2].n)
               ELSE OpEq(d.ops[2], o[2], V) /\ SrcByteOp(bytes, bits) = (o[2].w = 8)
       [] SetCC(mn) /\ k = 1 ->
            /\ Len(d.mn) > 3 /\ Take3(d.mn) = "SET" /\ CCOf("J" \o Drop3(d.mn)) = CCOf("J" \o Drop3(mn)) /\ Len(d.ops) = 1
            /\ IF o[1].t = "r" THEN o[1].w = 8 /\ d.ops[1] = R(8, o[1].n) ELSE o[1].t = "m" /\ o[1].w \in {0, 8} /\ OpEq(d.ops[1], o[1], V)
       [] mn = "BSWAP" /\ k = 1 -> d.mn = mn /\ o[1].t = "r" /\ o[1].w = 32 /\ d.ops = <<R(32, o[1].n)>>
       [] mn = "ENTER" /\ k = 2 ->
            /\ d.mn = mn /\ Len(d.ops) = 2 /\ o[1].t \in {"i", "l"} /\ o[2].t \in {"i", "l"}
            /\ V(o[1]) \in 0..65535 /\ V(o[2]) \in 0..255 /\ d.ops[1].b = LE(V(o[1]), 2) /\ d.ops[2].b = LE(V(o[2]), 1)
       [] mn \in {"JMP", "CALL"} /\ k = 1 /\ o[1].t \in {"r", "m"} ->     \* indirect near transfer through a register or a memory word
            /\ d.mn = (IF mn = "JMP" THEN "JMPIND" ELSE "CALLIND") /\ Len(d.ops) = 1
            /\ IF o[1].t = "r" THEN o[1].w \in {16, 32} /\ d.ops[1] = R(o[1].w, o[1].n) /\ d.w = o[1].w
               ELSE OpEq(d.ops[1], o[1], V) /\ (IF o[1].w # 0 THEN d.w = o[1].w ELSE d.w = bits)
       [] OTHER -> FALSE

(***************************************************************************)
(* Relative branches.  a = address of the first byte of the branch,        *)
(* tgt = address of the target.                                            *)
(***************************************************************************)
IsLoopMn(mn) == mn \in {"LOOP", "LOOPE", "LOOPZ", "LOOPNE", "LOOPNZ", "JCXZ", "JECXZ"}
LoopCanon(mn) == CASE mn \in {"LOOPZ", "LOOPE"} -> "LOOPE" [] mn \in {"LOOPNZ", "LOOPNE"} -> "LOOPNE" [] OTHER -> mn
BranchMn(mn) == mn \in {"JMP", "CALL"} \/ CCOf(mn) # -1 \/ IsLoopMn(mn)

BranchDenotes(bytes, mn, a, tgt, bits) ==
  LET d == Decode(bytes, bits) IN
  /\ d.ok /\ d.len = Len(bytes) /\ Len(d.ops) = 1 /\ d.ops[1].t = "rel"
  /\ IF mn \in {"JMP", "CALL"} THEN d.mn = mn
     ELSE IF IsLoopMn(mn) THEN d.mn = LoopCanon(mn)          \* (JCXZ / JECXZ: the decoder names it by the address size in force)
     ELSE /\ Len(d.mn) > 1 /\ ~IsLoopMn(d.mn) /\ CCOf(d.mn) = CCOf(mn)
  /\ LET land == a + d.len + d.ops[1].v IN
     IF d.w = 16 /\ bits = 16 THEN (land - tgt) % 65536 = 0      \* IP wraps at 64 KiB with 16-bit operand size
     ELSE IF d.w = 16 THEN (land % 65536) = tgt                    \* 66-prefixed in 32-bit code: EIP truncated
     ELSE land = tgt

FarDenotes(bytes, seg, off, bits) ==
  LET d == Decode(bytes, bits) IN
  /\ d.ok /\ d.len = Len(bytes) /\ d.mn = "JMPFAR"
  /\ d.ops[1].seg = LE(seg, 2)
  /\ IF d.w = 32 THEN d.ops[1].off = LE(off, 4)
     ELSE d.ops[1].off = LE(off, 2) /\ off >= 0 /\ off <= 65535

(***************************************************************************)
(* Shortest valid encoding length for the forms named by C18.              *)
(***************************************************************************)
AluImm == {"ADD", "OR", "AND", "SUB", "XOR", "CMP", "ADC", "SBB"}

\* bytes needed by the ModR/M part (ModR/M + SIB + displacement) of a source memory operand
MemLen(sm, dv) ==
  IF sm.aw = 0 THEN 0   \* absolute: 1 + address width, computed by the caller
  ELSE IF sm.aw = 16 THEN
     IF dv = 0 /\ ~(sm.b = 5 /\ sm.x = -1) THEN 1 ELSE IF FitsS8(SLE(LE(dv, 2))) THEN 2 ELSE 3
  ELSE
     LET needsib == sm.x # -1 \/ sm.b = 4
         nobase  == sm.b = -1
         s8      == FitsS8(dv)
         dl      == IF nobase THEN 4 ELSE IF dv = 0 /\ sm.b # 5 THEN 0 ELSE IF s8 THEN 1 ELSE 4
     IN 1 + (IF needsib \/ nobase THEN 1 ELSE 0) + dl

MinLen(s, bits, V(_)) ==
  LET mn == s.mn  o == s.ops  k == Len(o)
      w  == SrcWidth(o)
      p66(w0) == IF w0 \in {16, 32} /\ w0 # bits THEN 1 ELSE 0
      p67(m) == IF m.aw # 0 /\ m.aw # bits THEN 1 ELSE 0
      RMLen(x) == IF x.t = "r" THEN 1
                  ELSE IF x.aw = 0 THEN 1 + (IF (V(x) >= -32768 /\ V(x) <= 65535) /\ bits = 16 THEN 2 ELSE IF bits = 16 THEN 5 ELSE 4)
                  ELSE MemLen(x, V(x)) + p67(x)
  IN
  IF mn \in AluImm /\ k = 2 /\ o[2].t = "i" /\ w \in {8, 16, 32} THEN
     LET v == V(o[2])
         iw == w \div 8
         \* the sign-extended imm8 form is owed when the value AS WRITTEN is in -128..127
         sx8 == v >= -128 /\ v <= 127 /\ ~(o[2].sty = "h" /\ v < 0)
         acc == o[1].t = "r" /\ o[1].n = 0
         general == p66(w) + 1 + RMLen(o[1]) + (IF w = 8 THEN 1 ELSE IF sx8 THEN 1 ELSE iw)
         accum == p66(w) + 1 + iw
     IN IF acc /\ accum < general THEN accum ELSE general
  ELSE IF mn = "MOV" /\ k = 2 /\ o[1].t = "r" /\ o[2].t = "i" THEN p66(o[1].w) + 1 + o[1].w \div 8
  ELSE IF mn = "MOV" /\ k = 2 /\ o[1].t = "r" /\ o[1].n = 0 /\ o[2].t = "m" /\ o[2].aw = 0 THEN
     p66(o[1].w) + 1 + (IF bits = 16 /\ V(o[2]) >= -32768 /\ V(o[2]) <= 65535 THEN 2 ELSE IF bits = 16 THEN 5 ELSE 4)
  ELSE IF mn = "MOV" /\ k = 2 /\ o[2].t = "r" /\ o[2].n = 0 /\ o[1].t = "m" /\ o[1].aw = 0 THEN
     p66(o[2].w) + 1 + (IF bits = 16 /\ V(o[1]) >= -32768 /\ V(o[1]) <= 65535 THEN 2 ELSE IF bits = 16 THEN 5 ELSE 4)
  ELSE IF mn \in {"PUSH", "POP"} /\ k = 1 /\ o[1].t = "r" THEN p66(o[1].w) + 1
  ELSE 0     \* 0 = not a form C18 speaks about
=============================================================================
