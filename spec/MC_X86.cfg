INIT Init
NEXT Next
INVARIANTS Inv_RoundTrip Inv_MemLen Inv_PrefixFree
CHECK_DEADLOCK FALSE
