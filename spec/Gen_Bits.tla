------------------------------- MODULE Gen_Bits -------------------------------
(* Generator (direction A) for C17: where the BITS directive stands and how   *)
(* often the mode is switched.                                                *)
(*   [pre, pos, mode, groups]: pre = which preamble items are present (a       *)
(*   subset of a fixed list, in order), pos = position of the BITS directive   *)
(*   among them (0..Len), mode = 16 | 32 | 0 (no directive), groups = modes of *)
(*   further instruction groups, each introduced by its own BITS directive.    *)
EXTENDS Integers, Sequences, FiniteSets, Json, TLC
CONSTANT Part

Items == <<"comment", "org", "equ", "instrset", "label", "data", "format", "global", "optimize">>
Masks == {m \in SUBSET (1..Len(Items)) : Cardinality(m) <= 4}
Pre(m) == LET RECURSIVE F(_) F(i) == IF i > Len(Items) THEN << >> ELSE (IF i \in m THEN <<Items[i]>> ELSE << >>) \o F(i + 1) IN F(1)

Placement == {[pre |-> Pre(m), pos |-> p, mode |-> md, groups |-> << >>] : m \in Masks, p \in 0..4, md \in {0, 16, 32}}
Switches == {[pre |-> Pre(m), pos |-> 0, mode |-> md, groups |-> g] : m \in {{}, {2, 5}, {7, 8}}, md \in {0, 16, 32},
             g \in {<<16>>, <<32>>, <<16, 32>>, <<32, 16>>, <<32, 32>>, <<16, 16>>, <<32, 16, 32>>, <<16, 32, 16>>}}

\* a second BITS directive before the first instruction, with nothing in between that emits code
Twice == {[pre |-> Pre(m), pos |-> p, mode |-> md, groups |-> << >>, second |-> md2, pos2 |-> p2] :
            m \in {mm \in Masks : Cardinality(mm) \in {2, 3}}, p \in 0..3, p2 \in 0..3, md \in {16, 32}, md2 \in {16, 32}}
Universe == IF Part = "place" THEN {c \in Placement : c.pos <= Len(c.pre)}
            ELSE IF Part = "twice" THEN {c \in Twice : c.pos <= c.pos2 /\ c.pos2 <= Len(c.pre)} ELSE Switches
VARIABLE c
Init == c \in Universe
Next == UNCHANGED c
Emit == PrintT(<<"CASE", ToJson(c)>>)
=============================================================================
