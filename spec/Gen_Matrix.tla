------------------------------ MODULE Gen_Matrix ------------------------------
(* Generator (direction A) for C07 / C13: operand-list shapes of 0..3 operands *)
(* over every operand kind; the mnemonic list (the grammar's Opcode rule) is   *)
(* supplied by the driver and crossed with the shapes there.                   *)
EXTENDS Integers, Sequences, FiniteSets, Json, TLC
CONSTANT Part

Kinds == {"r8", "r16", "r32", "sreg", "creg", "imm_s", "imm_l", "m16", "m32", "bm", "wm", "dm", "lab", "undef", "str", "chr",
          "m16bad", "fwdequ", "globundef"}       \* an addressing mode that does not exist; an EQU name defined LATER with a non-constant body
\* segment:offset operands (far pointers) whose parts are of unusual kinds (C13)
FarKinds == {"far_ii", "far_kw", "far_es", "far_ec", "far_bs", "far_il", "far_li", "far_ri", "far_noff"}
Shapes ==
  CASE Part = "n0" -> {<< >>}
    [] Part = "n1" -> {<<a>> : a \in Kinds}
    [] Part = "far" -> {<<a>> : a \in FarKinds} \cup {<<a, "imm_s">> : a \in FarKinds}
    [] Part = "n2" -> {<<a, b>> : a \in Kinds, b \in Kinds}
    [] Part = "n3" -> {<<a, b, "imm_s">> : a \in {"r16", "r32", "wm"}, b \in {"r16", "r32", "m16", "imm_s", "undef"}}
                      \cup {<<a, b, c3>> : a \in {"r8", "sreg", "lab"}, b \in {"r8", "imm_l", "str"}, c3 \in {"r16", "m32", "lab", "chr"}}
VARIABLE c
Init == c \in Shapes
Next == UNCHANGED c
Emit == PrintT(<<"CASE", ToJson([shape |-> c])>>)
=============================================================================
