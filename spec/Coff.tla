-------------------------------- MODULE Coff --------------------------------
(* COFF (i386 object) as gosk writes it for [FORMAT "WCOFF"].                *)
(*  - the abstract object `obj` is what a raw reader extracts from the file  *)
(*    bytes without interpreting them;                                       *)
(*  - WellFormed(obj): the structural validity of C08;                       *)
(*  - Matches(obj, run): C09 - same code, right symbols;                     *)
(*  - the writer as a small state machine (placeholder header -> section     *)
(*    headers -> .text -> symbol records -> string table -> patch), whose    *)
(*    layout invariants are model-checked (MC_Coff).                         *)
(* obj == [flen, machine, nsec, symptr, nsyms, opthdr,                       *)
(*         secs : Seq([name, size, ptr, relptr, nrel, lnptr, nln]),          *)
(*         recs : Seq([aux (BOOLEAN), short (name bytes without padding, or  *)
(*                     << >>), off (string-table offset or 0), value, sec,   *)
(*                     class, naux, raw (the 18 bytes, aux records only)]),   *)
(*         strlen (the 4-byte length field), strtab (bytes after the field), *)
(*         textsha (hash of the raw data of section 1, computed by reader)]  *)
EXTENDS Bytes, TLC

HdrSize == 20
SecHdrSize == 40
SymSize == 18


\* NUL-terminated string at string-table offset off (offsets count from the length field)
RECURSIVE StrFrom(_, _)
StrFrom(tab, i) == IF i > Len(tab) THEN <<-1>>            \* ran off the table: not terminated
                   ELSE IF tab[i] = 0 THEN << >> ELSE <<tab[i]>> \o StrFrom(tab, i + 1)
StrAt(obj, off) == IF off < 4 \/ off - 4 + 1 > Len(obj.strtab) THEN <<-1>> ELSE StrFrom(obj.strtab, off - 4 + 1)

NameOf(obj, r) == IF r.off # 0 THEN StrAt(obj, r.off) ELSE r.short

Mains(obj) == {i \in 1..Len(obj.recs) : ~obj.recs[i].aux}

\* main / auxiliary structure: every main record is followed by exactly naux auxiliary records
RECURSIVE AuxOK(_, _)
AuxOK(recs, i) ==
  IF i > Len(recs) THEN TRUE
  ELSE /\ ~recs[i].aux
       /\ i + recs[i].naux <= Len(recs)
       /\ \A j \in (i + 1)..(i + recs[i].naux) : recs[j].aux
       /\ AuxOK(recs, i + 1 + recs[i].naux)

\* helper: a set of byte strings as a sequence (order irrelevant for SumLen)
RECURSIVE SetToSeqOfBytes(_)
SetToSeqOfBytes(S) == IF S = {} THEN << >> ELSE LET x == CHOOSE y \in S : TRUE IN <<x>> \o SetToSeqOfBytes(S \ {x})


WellFormed(obj) ==
  LET textlen == obj.secs[1].size IN
  <<
  obj.machine = 332,                                               \* 1  0x14c
  obj.nsec = 3 /\ Len(obj.secs) = 3 /\ obj.opthdr = 0,             \* 2
  obj.secs[1].name = <<46, 116, 101, 120, 116>>                    \* 3  .text .data .bss in order
     /\ obj.secs[2].name = <<46, 100, 97, 116, 97>> /\ obj.secs[3].name = <<46, 98, 115, 115>>,
  obj.secs[1].ptr = HdrSize + 3 * SecHdrSize \/ (textlen = 0 /\ obj.secs[1].ptr = 0),   \* 4
  obj.symptr = HdrSize + 3 * SecHdrSize + textlen,                 \* 5
  obj.flen = obj.symptr + SymSize * obj.nsyms + obj.strlen,        \* 6  counts vs. actual layout
  Len(obj.recs) = obj.nsyms /\ AuxOK(obj.recs, 1),                 \* 7  records incl. auxiliaries
  obj.strlen = 4 + Len(obj.strtab),                                \* 8  length field = real size
  \A i \in 1..3 : /\ obj.secs[i].ptr + obj.secs[i].size <= obj.flen       \* 9  everything inside the file
                  /\ obj.secs[i].relptr <= obj.flen /\ obj.secs[i].lnptr <= obj.flen
                  /\ obj.secs[i].nrel = 0 /\ obj.secs[i].nln = 0
                  /\ (i > 1 => obj.secs[i].size = 0),
  \A i \in Mains(obj) : /\ obj.recs[i].off # 0 => (LET s == StrAt(obj, obj.recs[i].off) IN s # <<-1>> /\ Len(s) > 8)   \* 10 long names resolve
                        /\ obj.recs[i].sec \in {-2, -1, 0, 1, 2, 3},
  \* 11 the string table is NUL-terminated text (how names share storage is the writer's business: tail merging is legal)
  obj.strtab = << >> \/ obj.strtab[Len(obj.strtab)] = 0,
  \* 12 .file and the three section symbols with their auxiliary records
  /\ Len(obj.recs) >= 8
  /\ obj.recs[1].short = <<46, 102, 105, 108, 101>> /\ obj.recs[1].naux = 1 /\ obj.recs[1].class = 103 /\ obj.recs[1].sec = -2
  /\ \A k \in 1..3 : LET r == obj.recs[1 + 2 * k] IN
        r.short = obj.secs[k].name /\ r.sec = k /\ r.class = 3 /\ r.naux = 1
        /\ Take(obj.recs[2 + 2 * k].raw, 4) = LE(obj.secs[k].size, 4)
  >>

WFAll(obj) == LET w == WellFormed(obj) IN \A i \in 1..Len(w) : w[i]
WFFailed(obj) == LET w == WellFormed(obj) IN {i \in 1..Len(w) : ~w[i]}

(***************************************************************************)
(* C09.  run == [decl (GLOBAL names in declaration order, as byte strings),*)
(*               sym (function name -> label value, for defined labels),   *)
(*               flatsha, file (FILE name bytes), ext (EXTERN names)]      *)
(***************************************************************************)
RECURSIVE Dedup(_)
Dedup(s) == IF s = << >> THEN << >>
            ELSE LET r == Dedup(Take(s, Len(s) - 1)) IN
                 IF \E i \in 1..Len(r) : r[i] = s[Len(s)] THEN r ELSE Append(r, s[Len(s)])

\* the external symbols the object must contain, in order: defined ones by address (stable), undefined ones last
\* stable insertion sort of a sequence of <<key, value>> pairs by key
RECURSIVE InsPair(_, _)
InsPair(s, x) == IF s = << >> THEN <<x>>
                 ELSE IF x[1] < Head(s)[1] THEN <<x>> \o s ELSE <<Head(s)>> \o InsPair(Tail(s), x)
RECURSIVE SortPairs(_)
SortPairs(seq) == IF seq = << >> THEN << >> ELSE InsPair(SortPairs(Take(seq, Len(seq) - 1)), seq[Len(seq)])

ExpectedExternals(run) ==
  LET names == Dedup(run.decl)
      defd == SelectSeq(names, LAMBDA n : n \in DOMAIN run.sym)
      und == SelectSeq(names, LAMBDA n : n \notin DOMAIN run.sym)
      pairs == SortPairs([j \in 1..Len(defd) |-> <<run.sym[defd[j]], defd[j]>>])
      sorted == [j \in 1..Len(pairs) |-> pairs[j][2]]
  IN [j \in 1..Len(sorted) |-> [name |-> sorted[j], value |-> run.sym[sorted[j]], sec |-> 1]]
     \o [j \in 1..Len(und) |-> [name |-> und[j], value |-> 0, sec |-> 0]]
     \o [j \in 1..Len(run.ext) |-> [name |-> run.ext[j], value |-> 0, sec |-> 0]]

\* the external (class 2) symbols actually present, in file order
Externals(obj) ==
  LET idx == SelectSeq([i \in 1..Len(obj.recs) |-> i], LAMBDA i : ~obj.recs[i].aux /\ obj.recs[i].class = 2)
  IN [j \in 1..Len(idx) |-> [name |-> NameOf(obj, obj.recs[idx[j]]), value |-> obj.recs[idx[j]].value, sec |-> obj.recs[idx[j]].sec]]

Matches(obj, run) ==
  <<
  obj.textsha = run.flatsha,                                         \* 1 .text = the flat image of the same source
  Externals(obj) = ExpectedExternals(run),                           \* 2 each GLOBAL once, value, order, long names
  Len(obj.recs) >= 2 /\ obj.recs[2].aux                              \* 3 [FILE] name in the .file auxiliary record
     /\ obj.recs[2].raw = Take(run.file, 18) \o Zeros(18 - Len(Take(run.file, 18)))
  >>
MFailed(obj, run) == LET w == Matches(obj, run) IN {i \in 1..Len(w) : ~w[i]}
=============================================================================
