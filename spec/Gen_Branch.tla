------------------------------ MODULE Gen_Branch ------------------------------
(* Generator (direction A): the branch situations of C04.  A cell is          *)
(*   [mn, d, dir, after, tk, org, bits]: mnemonic, distance in bytes between  *)
(*   the branch and its target, forward/backward, a further label after the   *)
(*   branch or not, label or numeric target, origin, mode.                    *)
EXTENDS Integers, Sequences, FiniteSets, Json, TLC

CONSTANTS Dists, Orgs, Mns

Jumps == {"JA", "JAE", "JB", "JBE", "JC", "JE", "JG", "JGE", "JL", "JLE", "JMP", "JNA", "JNAE", "JNB", "JNBE", "JNC", "JNE",
          "JNG", "JNGE", "JNL", "JNLE", "JNO", "JNP", "JNS", "JNZ", "JO", "JP", "JPE", "JPO", "JS", "JZ", "CALL"}
MnSet == IF Mns = {} THEN Jumps ELSE Mns

Universe == {[mn |-> mn, d |-> d, dir |-> dir, after |-> af, tk |-> tk, org |-> o, bits |-> b] :
               mn \in MnSet, d \in Dists, dir \in {"f", "b"}, af \in {0, 1}, tk \in {"l", "n"}, o \in Orgs, b \in {16, 32}}
Far == {[mn |-> "JMP", seg |-> s, off |-> o, bits |-> b, kw |-> kw] :
          s \in {0, 8, 16, 65535}, o \in {0, 27, 65535, 65536, 2147483647}, b \in {16, 32}, kw \in {"", "DWORD"}}

\* rel8-only transfers (gosk reports them today; judged by BranchDenotes as soon as it assembles them)
LoopFam == {[mn |-> mn, d |-> d, dir |-> dir, after |-> 1, tk |-> "l", org |-> o, bits |-> b] :
              mn \in {"LOOP", "LOOPE", "LOOPNE", "JCXZ", "JECXZ"}, d \in {x \in Dists : x <= 140}, dir \in {"f", "b"}, o \in Orgs, b \in {16, 32}}

VARIABLE c
Init == c \in Universe \cup Far \cup (IF Mns = {} THEN LoopFam ELSE {})
Next == UNCHANGED c
Emit == PrintT(<<"CASE", ToJson(c)>>)
=============================================================================
