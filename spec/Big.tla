-------------------------------- MODULE Big --------------------------------
(* Integer arithmetic beyond TLC's 32-bit integers, for the expression       *)
(* semantics of C06 / C11 where values pass 2^31 (0xffffffff/2, 0x7fffffff*2 *)
(* +1, EQU constants with bit 31 set): gosk evaluates in 64 bits, the        *)
(* reference here is exact.  A number is [neg, mag]; mag is a sequence of    *)
(* base-10000 digits, least significant first, without a most significant    *)
(* zero (<< >> is 0).  All intermediate TLC integers stay below 10^8.        *)
(* Checked against TLC's own arithmetic and against externally computed      *)
(* constants in MC_Big.tla.                                                  *)
EXTENDS Integers, Sequences

BBase == 10000

RECURSIVE BStrip(_)
BStrip(m) == IF m # << >> /\ m[Len(m)] = 0 THEN BStrip(SubSeq(m, 1, Len(m) - 1)) ELSE m

RECURSIVE MagOfNat(_)
MagOfNat(n) == IF n = 0 THEN << >> ELSE <<n % BBase>> \o MagOfNat(n \div BBase)

RECURSIVE CmpFrom(_, _, _)
CmpFrom(a, b, i) == IF i = 0 THEN 0 ELSE IF a[i] < b[i] THEN -1 ELSE IF a[i] > b[i] THEN 1 ELSE CmpFrom(a, b, i - 1)
MCmp(a, b) == IF Len(a) < Len(b) THEN -1 ELSE IF Len(a) > Len(b) THEN 1 ELSE CmpFrom(a, b, Len(a))

BDig(m, i) == IF i <= Len(m) THEN m[i] ELSE 0

RECURSIVE AddFrom(_, _, _, _)
AddFrom(a, b, i, carry) ==
  IF i > Len(a) /\ i > Len(b) THEN (IF carry = 0 THEN << >> ELSE <<carry>>)
  ELSE LET t == BDig(a, i) + BDig(b, i) + carry IN <<t % BBase>> \o AddFrom(a, b, i + 1, t \div BBase)
MAdd(a, b) == AddFrom(a, b, 1, 0)

RECURSIVE SubFrom(_, _, _, _)          \* a >= b
SubFrom(a, b, i, borrow) ==
  IF i > Len(a) THEN << >>
  ELSE LET t == BDig(a, i) - BDig(b, i) - borrow IN
       IF t < 0 THEN <<t + BBase>> \o SubFrom(a, b, i + 1, 1) ELSE <<t>> \o SubFrom(a, b, i + 1, 0)
MSub(a, b) == BStrip(SubFrom(a, b, 1, 0))

RECURSIVE MulSmallFrom(_, _, _, _)     \* 0 <= k < BBase
MulSmallFrom(a, k, i, carry) ==
  IF i > Len(a) THEN (IF carry = 0 THEN << >> ELSE <<carry>>)
  ELSE LET t == a[i] * k + carry IN <<t % BBase>> \o MulSmallFrom(a, k, i + 1, t \div BBase)
MMulSmall(a, k) == IF k = 0 THEN << >> ELSE MulSmallFrom(a, k, 1, 0)

BShift(m, n) == IF m = << >> THEN << >> ELSE [i \in 1..n |-> 0] \o m

RECURSIVE MMulFrom(_, _, _)
MMulFrom(a, b, j) == IF j > Len(b) THEN << >> ELSE MAdd(BShift(MMulSmall(a, b[j]), j - 1), MMulFrom(a, b, j + 1))
MMul(a, b) == MMulFrom(a, b, 1)

\* largest d in lo..hi with b*d <= r
RECURSIVE QDigit(_, _, _, _)
QDigit(r, b, lo, hi) ==
  IF lo = hi THEN lo
  ELSE LET mid == (lo + hi + 1) \div 2 IN
       IF MCmp(MMulSmall(b, mid), r) <= 0 THEN QDigit(r, b, mid, hi) ELSE QDigit(r, b, lo, mid - 1)

\* schoolbook long division, most significant digit first; b # << >>
RECURSIVE DivFrom(_, _, _, _)
DivFrom(a, b, i, r) ==
  IF i = 0 THEN [q |-> << >>, r |-> r]
  ELSE LET r1 == BStrip(<<a[i]>> \o r)
           d  == QDigit(r1, b, 0, BBase - 1)
           r2 == MSub(r1, MMulSmall(b, d))
           rest == DivFrom(a, b, i - 1, r2)
       IN [q |-> rest.q \o <<d>>, r |-> rest.r]
MDivMod(a, b) == LET x == DivFrom(a, b, Len(a), << >>) IN [q |-> BStrip(x.q), r |-> x.r]

(***************************************************************************)
(* signed numbers                                                          *)
(***************************************************************************)
BZero == [neg |-> FALSE, mag |-> << >>]
BNorm(x) == IF x.mag = << >> THEN BZero ELSE x
FromInt(i) == IF i < 0 THEN [neg |-> TRUE, mag |-> MagOfNat(-i)] ELSE [neg |-> FALSE, mag |-> MagOfNat(i)]      \* (i # -2^31)
BNeg(x) == BNorm([neg |-> ~x.neg, mag |-> x.mag])
BAdd(x, y) ==
  IF x.neg = y.neg THEN BNorm([neg |-> x.neg, mag |-> MAdd(x.mag, y.mag)])
  ELSE LET c == MCmp(x.mag, y.mag) IN
       IF c = 0 THEN BZero ELSE IF c > 0 THEN [neg |-> x.neg, mag |-> MSub(x.mag, y.mag)] ELSE [neg |-> y.neg, mag |-> MSub(y.mag, x.mag)]
BSub(x, y) == BAdd(x, BNeg(y))
BMul(x, y) == BNorm([neg |-> x.neg # y.neg, mag |-> MMul(x.mag, y.mag)])
\* truncating division and its remainder (the sign of the remainder is the sign of the dividend)
BDiv(x, y) == BNorm([neg |-> x.neg # y.neg, mag |-> MDivMod(x.mag, y.mag).q])
BMod(x, y) == BNorm([neg |-> x.neg, mag |-> MDivMod(x.mag, y.mag).r])
BIsZero(x) == x.mag = << >>

P16 == MagOfNat(65536)
P32 == MMul(P16, P16)
P63 == MMul(P32, MMul(MagOfNat(32768), P16))
BPow256(n) == CASE n = 1 -> MagOfNat(256) [] n = 2 -> P16 [] n = 4 -> P32
\* representable in a signed 64-bit integer
In64(x) == MCmp(x.mag, P63) < 0 \/ (x.neg /\ x.mag = P63)

MagToInt(m) == IF m = << >> THEN 0 ELSE m[1] + (IF Len(m) > 1 THEN m[2] * BBase ELSE 0)     \* (small values only)
RECURSIVE BytesOf(_, _)
BytesOf(m, n) == IF n = 0 THEN << >> ELSE LET dm == MDivMod(m, <<256>>) IN <<MagToInt(dm.r)>> \o BytesOf(dm.q, n - 1)
\* the n low bytes (little endian) of the two's complement representation
BLE(x, n) ==
  LET P == BPow256(n)
      r == MDivMod(x.mag, P).r
      m == IF x.neg /\ r # << >> THEN MSub(P, r) ELSE r
  IN BytesOf(m, n)

(***************************************************************************)
(* expressions: the trees of AsmSem plus [o |-> "nb", neg, mag] literals.  *)
(* defs: function  name -> expression  (EQU definitions in force).         *)
(***************************************************************************)
RECURSIVE BigEval(_, _)
BigEval(e, defs) ==
  CASE e.o = "n" -> FromInt(e.v)
    [] e.o = "nb" -> BNorm([neg |-> e.neg, mag |-> e.mag])
    [] e.o = "id" -> BigEval(defs[e.nm], defs)
    [] e.o = "par" -> BigEval(e.a, defs)
    [] e.o = "neg" -> BNeg(BigEval(e.a, defs))
    [] e.o = "+" -> BAdd(BigEval(e.a, defs), BigEval(e.b, defs))
    [] e.o = "-" -> BSub(BigEval(e.a, defs), BigEval(e.b, defs))
    [] e.o = "*" -> BMul(BigEval(e.a, defs), BigEval(e.b, defs))
    [] e.o = "/" -> BDiv(BigEval(e.a, defs), BigEval(e.b, defs))
    [] e.o = "%" -> BMod(BigEval(e.a, defs), BigEval(e.b, defs))

\* every name defined, no zero divisor, every intermediate value representable in 64 bits
RECURSIVE BigOK(_, _)
BigOK(e, defs) ==
  CASE e.o \in {"n", "nb"} -> TRUE
    [] e.o = "id" -> e.nm \in DOMAIN defs /\ BigOK(defs[e.nm], defs)
    [] e.o \in {"par", "neg"} -> BigOK(e.a, defs)
    [] OTHER -> /\ BigOK(e.a, defs) /\ BigOK(e.b, defs)
                /\ (e.o \in {"/", "%"} => ~BIsZero(BigEval(e.b, defs)))
                /\ In64(BigEval(e, defs))
=============================================================================
