------------------------------- MODULE Gen_Expr -------------------------------
(* Generator (direction A) for C06: expression trees over boundary literals,   *)
(* the five operators, unary minus and parentheses.  Only trees whose every    *)
(* intermediate value stays inside int32 are generated (TLC integers are       *)
(* Java ints; stated in the evidence).                                         *)
EXTENDS Integers, Sequences, FiniteSets, Json, TLC
CONSTANTS Part, Lits, NegLits, Ops     \* NegLits: magnitudes of the negative literals (cfg files have no negative numbers)

Max == 2147483647
Abs(x) == IF x < 0 THEN -x ELSE x
Sgn(x) == IF x < 0 THEN -1 ELSE 1
TDiv(a, b) == Sgn(a) * Sgn(b) * (Abs(a) \div Abs(b))
TMod(a, b) == a - b * TDiv(a, b)

Lit(v) == [o |-> "n", v |-> v]
Bin(op, a, b) == [o |-> op, a |-> a, b |-> b]

\* [ok, v]: value with overflow / zero-divisor detection done BEFORE each operation
RECURSIVE Val(_)
Val(e) ==
  IF e.o = "n" THEN [ok |-> TRUE, v |-> e.v]
  ELSE LET A == Val(e.a)  B == Val(e.b) IN
       IF ~A.ok \/ ~B.ok THEN [ok |-> FALSE, v |-> 0]
       ELSE CASE e.o = "+" -> IF (B.v > 0 /\ A.v > Max - B.v) \/ (B.v < 0 /\ A.v < (-Max) - B.v) THEN [ok |-> FALSE, v |-> 0] ELSE [ok |-> TRUE, v |-> A.v + B.v]
              [] e.o = "-" -> IF (B.v < 0 /\ A.v > Max + B.v) \/ (B.v > 0 /\ A.v < (-Max) + B.v) THEN [ok |-> FALSE, v |-> 0] ELSE [ok |-> TRUE, v |-> A.v - B.v]
              [] e.o = "*" -> IF A.v # 0 /\ B.v # 0 /\ Abs(A.v) > Max \div Abs(B.v) THEN [ok |-> FALSE, v |-> 0] ELSE [ok |-> TRUE, v |-> A.v * B.v]
              [] e.o = "/" -> IF B.v = 0 THEN [ok |-> FALSE, v |-> 0] ELSE [ok |-> TRUE, v |-> TDiv(A.v, B.v)]
              [] e.o = "%" -> IF B.v = 0 THEN [ok |-> FALSE, v |-> 0] ELSE [ok |-> TRUE, v |-> TMod(A.v, B.v)]

L == {Lit(v) : v \in Lits} \cup {Lit(-v) : v \in NegLits}
D1 == {Bin(op, a, b) : op \in Ops, a \in L, b \in L}
D2L == {Bin(op, a, b) : op \in Ops, a \in D1, b \in L}        \* left-deep
D2R == {Bin(op, a, b) : op \in Ops, a \in L, b \in D1}        \* right-deep
D3B == {Bin(op, a, b) : op \in Ops, a \in D1, b \in D1}       \* balanced, depth 3 (4 leaves)

Universe == CASE Part = "d1" -> D1 [] Part = "d2" -> D2L \cup D2R [] Part = "d3" -> D3B
            [] Part = "div0" -> {Bin(op, a, Lit(0)) : op \in {"/", "%"}, a \in L} \cup {Bin("/", Lit(5), Bin("-", Lit(2), Lit(2)))}

VARIABLE c
Init == c \in {e \in Universe : Part = "div0" \/ Val(e).ok}
Next == UNCHANGED c
Emit == PrintT(<<"CASE", ToJson([e |-> c, v |-> IF Part = "div0" THEN 0 ELSE Val(c).v])>>)
=============================================================================
