----------------------------- MODULE LayoutLemma -----------------------------
(* Arithmetic facts the layout properties (C03, C05, C16) rest on, for ALL     *)
(* values (checked symbolically with Apalache, not on TLC's bounded sets):     *)
(*  - AlignPad(a, n), the padding of ALIGNB n at address a, is the least       *)
(*    non-negative number that makes a + pad a multiple of n;                  *)
(*  - moving a program by delta keeps every ALIGNB padding exactly when delta   *)
(*    is a multiple of the alignment (why C16 quantifies over such origins);   *)
(*  - a label value embedded in k bytes and read back differs from the label   *)
(*    by a multiple of 2^(8k) (relocation "modulo the slot width").            *)
EXTENDS Integers

VARIABLES
  \* @type: Int;
  a,
  \* @type: Int;
  n,
  \* @type: Int;
  d,
  \* @type: Int;
  q

AlignPad(x, m) == (m - (x % m)) % m
Init == a \in 0..4294967295 /\ n \in {1, 2, 4, 8, 16, 32} /\ d \in 0..4294967295 /\ q \in 0..31
Next == UNCHANGED <<a, n, d, q>>

PadAligns == (a + AlignPad(a, n)) % n = 0
PadBounds == AlignPad(a, n) >= 0 /\ AlignPad(a, n) < n
PadLeast  == (q < AlignPad(a, n)) => (a + q) % n # 0
PadShift  == (d % n = 0) => AlignPad(a + d, n) = AlignPad(a, n)
Low16(x) == x % 65536
SlotWrap  == Low16(a + d) = Low16(Low16(a) + Low16(d))
Lemma == PadAligns /\ PadBounds /\ PadLeast /\ PadShift /\ SlotWrap
=============================================================================
