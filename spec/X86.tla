-------------------------------- MODULE X86 --------------------------------
(* The x86 (IA-32, real/protected 16- and 32-bit modes) instruction-set      *)
(* definition for the subset of the ISA that gosk addresses, written from    *)
(* the Intel SDM vol. 2 opcode maps and tables 2-1 / 2-2 / 2-3 -- NOT from    *)
(* gosk.  Decode(bs, bits) decodes ONE instruction at the start of the byte  *)
(* sequence bs under the default operand/address size `bits`.                *)
(*                                                                           *)
(* Decoded operands                                                          *)
(*   [t |-> "r", w, n]                 general register, w in {8,16,32}      *)
(*   [t |-> "s", n]                    segment register ES CS SS DS FS GS    *)
(*   [t |-> "c", n]                    control register CRn                  *)
(*   [t |-> "i", b]                    immediate, little-endian bytes at the *)
(*                                     width the ISA gives it (after sign    *)
(*                                     extension where the ISA extends)      *)
(*   [t |-> "m", aw, b, x, sc, d, sg]  memory: address width, base, index    *)
(*                                     (-1 = none), scale, displacement as   *)
(*                                     bytes at address width, seg override  *)
(*   [t |-> "rel", v]                  relative branch displacement (signed) *)
(*   [t |-> "far", seg, off]           far pointer                           *)
EXTENDS Bytes

Bad == [ok |-> FALSE, len |-> 0, mn |-> "?", w |-> 0, ops |-> << >>]
Ins(len, mn, w, ops) == [ok |-> TRUE, len |-> len, mn |-> mn, w |-> w, ops |-> ops]

R(w, n)  == [t |-> "r", w |-> w, n |-> n]
S(n)     == [t |-> "s", n |-> n]
C(n)     == [t |-> "c", n |-> n]
I(b)     == [t |-> "i", b |-> b]
Rel(v)   == [t |-> "rel", v |-> v]

AluName == <<"ADD", "OR", "ADC", "SBB", "AND", "SUB", "XOR", "CMP">>
ShiftName == <<"ROL", "ROR", "RCL", "RCR", "SHL", "SHR", "SAL", "SAR">>
Grp3Name == <<"TEST", "TEST", "NOT", "NEG", "MUL", "IMUL", "DIV", "IDIV">>
\* condition codes 0..15 in opcode order (70+cc / 0F 80+cc)
CCName == <<"O", "NO", "B", "AE", "E", "NE", "BE", "A", "S", "NS", "P", "NP", "L", "GE", "LE", "G">>

\* canonical condition code of a jump mnemonic (all synonyms), -1 if not a conditional jump
CCOf(mn) ==
  CASE mn = "JO" -> 0 [] mn = "JNO" -> 1
    [] mn \in {"JB", "JC", "JNAE"} -> 2 [] mn \in {"JAE", "JNB", "JNC"} -> 3
    [] mn \in {"JE", "JZ"} -> 4 [] mn \in {"JNE", "JNZ"} -> 5
    [] mn \in {"JBE", "JNA"} -> 6 [] mn \in {"JA", "JNBE"} -> 7
    [] mn = "JS" -> 8 [] mn = "JNS" -> 9
    [] mn \in {"JP", "JPE"} -> 10 [] mn \in {"JNP", "JPO"} -> 11
    [] mn \in {"JL", "JNGE"} -> 12 [] mn \in {"JGE", "JNL"} -> 13
    [] mn \in {"JLE", "JNG"} -> 14 [] mn \in {"JG", "JNLE"} -> 15
    [] OTHER -> -1

PrefixBytes == {102, 103, 38, 46, 54, 62, 100, 101}   \* 66 67 26 2E 36 3E 64 65
SegOfPrefix(b) == CASE b = 38 -> 0 [] b = 46 -> 1 [] b = 54 -> 2 [] b = 62 -> 3 [] b = 100 -> 4 [] b = 101 -> 5 [] OTHER -> -1

\* number of leading prefix bytes (at most 4)
NPrefix(bs) ==
  LET P(i) == i <= Len(bs) /\ bs[i] \in PrefixBytes
  IN IF ~P(1) THEN 0 ELSE IF ~P(2) THEN 1 ELSE IF ~P(3) THEN 2 ELSE IF ~P(4) THEN 3 ELSE 4

(***************************************************************************)
(* ModR/M + SIB + displacement.  p = 1-based position of the ModR/M byte.  *)
(* Result: [ok, n (bytes consumed from p), mod, reg, rm, mem]              *)
(***************************************************************************)
Rm16Base(rm)  == CASE rm \in {0, 1, 7} -> 3 [] rm \in {2, 3, 6} -> 5 [] rm = 4 -> 6 [] rm = 5 -> 7
Rm16Index(rm) == CASE rm \in {0, 2} -> 6 [] rm \in {1, 3} -> 7 [] OTHER -> -1

Mem(aw, b, x, sc, d, sg) == [t |-> "m", aw |-> aw, b |-> b, x |-> x, sc |-> sc, d |-> d, sg |-> sg]

ModRM(bs, p, aw, sg) ==
  IF p > Len(bs) THEN [ok |-> FALSE]
  ELSE
  LET m   == bs[p]
      mod == m \div 64
      reg == (m \div 8) % 8
      rm  == m % 8
      Have(k) == p + k <= Len(bs)       \* k further bytes after the ModR/M byte available
      Fld(a, k) == Sub(bs, p + a, p + a + k - 1)
  IN
  IF mod = 3 THEN [ok |-> TRUE, n |-> 1, mod |-> 3, reg |-> reg, rm |-> rm, mem |-> << >>]
  ELSE IF aw = 16 THEN
     IF mod = 0 /\ rm = 6 THEN
        IF Have(2) THEN [ok |-> TRUE, n |-> 3, mod |-> 0, reg |-> reg, rm |-> rm,
                         mem |-> Mem(16, -1, -1, 1, Fld(1, 2), sg)]
        ELSE [ok |-> FALSE]
     ELSE LET k == IF mod = 0 THEN 0 ELSE IF mod = 1 THEN 1 ELSE 2
              d == IF k = 0 THEN <<0, 0>> ELSE SignExt(Fld(1, k), 2)
          IN IF Have(k) THEN [ok |-> TRUE, n |-> 1 + k, mod |-> mod, reg |-> reg, rm |-> rm,
                              mem |-> Mem(16, Rm16Base(rm), Rm16Index(rm), 1, d, sg)]
             ELSE [ok |-> FALSE]
  ELSE \* 32-bit addressing
     IF rm # 4 THEN
        IF mod = 0 /\ rm = 5 THEN
           IF Have(4) THEN [ok |-> TRUE, n |-> 5, mod |-> 0, reg |-> reg, rm |-> rm,
                            mem |-> Mem(32, -1, -1, 1, Fld(1, 4), sg)]
           ELSE [ok |-> FALSE]
        ELSE LET k == IF mod = 0 THEN 0 ELSE IF mod = 1 THEN 1 ELSE 4
                 d == IF k = 0 THEN <<0, 0, 0, 0>> ELSE SignExt(Fld(1, k), 4)
             IN IF Have(k) THEN [ok |-> TRUE, n |-> 1 + k, mod |-> mod, reg |-> reg, rm |-> rm,
                                 mem |-> Mem(32, rm, -1, 1, d, sg)]
                ELSE [ok |-> FALSE]
     ELSE \* SIB
        IF ~Have(1) THEN [ok |-> FALSE]
        ELSE
        LET sib == bs[p + 1]
            ss  == sib \div 64
            ix  == (sib \div 8) % 8
            bb  == sib % 8
            sc  == CASE ss = 0 -> 1 [] ss = 1 -> 2 [] ss = 2 -> 4 [] ss = 3 -> 8
            idx == IF ix = 4 THEN -1 ELSE ix
            nobase == mod = 0 /\ bb = 5
            k == IF nobase THEN 4 ELSE IF mod = 0 THEN 0 ELSE IF mod = 1 THEN 1 ELSE 4
            d == IF k = 0 THEN <<0, 0, 0, 0>> ELSE SignExt(Fld(2, k), 4)
        IN IF Have(1 + k) THEN [ok |-> TRUE, n |-> 2 + k, mod |-> mod, reg |-> reg, rm |-> rm,
                                mem |-> Mem(32, IF nobase THEN -1 ELSE bb, idx,
                                            IF idx = -1 THEN 1 ELSE sc, d, sg)]
           ELSE [ok |-> FALSE]

\* r/m operand of width w from a decoded ModR/M
RMop(mr, w) == IF mr.mod = 3 THEN R(w, mr.rm) ELSE mr.mem

(***************************************************************************)
(* Opcodes without operands that are a single fixed byte string in both    *)
(* modes (operand-size dependent ones are handled in Decode).              *)
(***************************************************************************)
OneByteNoOp(b) ==
  CASE b = 39 -> "DAA" [] b = 47 -> "DAS" [] b = 55 -> "AAA" [] b = 63 -> "AAS"
    [] b = 144 -> "NOP" [] b = 155 -> "WAIT" [] b = 158 -> "SAHF" [] b = 159 -> "LAHF"
    [] b = 195 -> "RET" [] b = 203 -> "RETF" [] b = 201 -> "LEAVE" [] b = 204 -> "INT3" [] b = 206 -> "INTO"
    [] b = 240 -> "LOCK" [] b = 242 -> "REPNE" [] b = 243 -> "REP" [] b = 244 -> "HLT" [] b = 245 -> "CMC"
    [] b = 248 -> "CLC" [] b = 249 -> "STC" [] b = 250 -> "CLI" [] b = 251 -> "STI" [] b = 252 -> "CLD" [] b = 253 -> "STD"
    [] b = 214 -> "SETALC" [] b = 241 -> "ICEBP"
    [] OTHER -> ""

\* operand-size dependent one-byte opcodes: name under 16-bit / 32-bit operand size
SizedNoOp(b, osz) ==
  CASE b = 152 -> IF osz = 16 THEN "CBW" ELSE "CWDE"
    [] b = 153 -> IF osz = 16 THEN "CWD" ELSE "CDQ"
    [] b = 96  -> IF osz = 16 THEN "PUSHA" ELSE "PUSHAD"
    [] b = 97  -> IF osz = 16 THEN "POPA" ELSE "POPAD"
    [] b = 156 -> IF osz = 16 THEN "PUSHF" ELSE "PUSHFD"
    [] b = 157 -> IF osz = 16 THEN "POPF" ELSE "POPFD"
    [] b = 207 -> IF osz = 16 THEN "IRET" ELSE "IRETD"
    [] OTHER -> ""

TwoByteNoOp(b) ==   \* 0F b
  CASE b = 6 -> "CLTS" [] b = 8 -> "INVD" [] b = 9 -> "WBINVD" [] b = 11 -> "UD2"
    [] b = 48 -> "WRMSR" [] b = 49 -> "RDTSC" [] b = 50 -> "RDMSR" [] b = 51 -> "RDPMC"
    [] b = 52 -> "SYSENTER" [] b = 53 -> "SYSEXIT" [] b = 5 -> "SYSCALL" [] b = 7 -> "SYSRET"
    [] b = 119 -> "EMMS" [] b = 162 -> "CPUID" [] b = 170 -> "RSM"
    [] OTHER -> ""

\* x87 / system instructions without operands: mnemonic -> exact byte string
FixedBytes(mn) ==
  CASE mn = "F2XM1" -> <<217, 240>> [] mn = "FABS" -> <<217, 225>> [] mn = "FCHS" -> <<217, 224>>
    [] mn = "FCOS" -> <<217, 255>> [] mn = "FDECSTP" -> <<217, 246>> [] mn = "FINCSTP" -> <<217, 247>>
    [] mn = "FLD1" -> <<217, 232>> [] mn = "FLDL2T" -> <<217, 233>> [] mn = "FLDL2E" -> <<217, 234>>
    [] mn = "FLDPI" -> <<217, 235>> [] mn = "FLDLG2" -> <<217, 236>> [] mn = "FLDLN2" -> <<217, 237>>
    [] mn = "FLDZ" -> <<217, 238>> [] mn = "FNOP" -> <<217, 208>> [] mn = "FPATAN" -> <<217, 243>>
    [] mn = "FPREM" -> <<217, 248>> [] mn = "FPREM1" -> <<217, 245>> [] mn = "FPTAN" -> <<217, 242>>
    [] mn = "FRNDINT" -> <<217, 252>> [] mn = "FSCALE" -> <<217, 253>> [] mn = "FSIN" -> <<217, 254>>
    [] mn = "FSINCOS" -> <<217, 251>> [] mn = "FSQRT" -> <<217, 250>> [] mn = "FTST" -> <<217, 228>>
    [] mn = "FXAM" -> <<217, 229>> [] mn = "FXTRACT" -> <<217, 244>> [] mn = "FYL2X" -> <<217, 241>>
    [] mn = "FYL2XP1" -> <<217, 249>> [] mn = "FXCH" -> <<217, 201>>
    [] mn = "FADDP" -> <<222, 193>> [] mn = "FMULP" -> <<222, 201>> [] mn = "FSUBP" -> <<222, 233>>
    [] mn = "FSUBRP" -> <<222, 225>> [] mn = "FDIVP" -> <<222, 249>> [] mn = "FDIVRP" -> <<222, 241>>
    [] mn = "FCOMPP" -> <<222, 217>> [] mn = "FCOM" -> <<216, 209>> [] mn = "FCOMP" -> <<216, 217>>
    [] mn = "FUCOM" -> <<221, 225>> [] mn = "FUCOMP" -> <<221, 233>> [] mn = "FUCOMPP" -> <<218, 233>>
    [] mn = "FNCLEX" -> <<219, 226>> [] mn = "FNINIT" -> <<219, 227>>
    [] mn = "FCLEX" -> <<155, 219, 226>> [] mn = "FINIT" -> <<155, 219, 227>>
    [] mn = "FNENI" -> <<219, 224>> [] mn = "FNDISI" -> <<219, 225>> [] mn = "FNSETPM" -> <<219, 228>>
    [] mn = "FENI" -> <<155, 219, 224>> [] mn = "FDISI" -> <<155, 219, 225>> [] mn = "FSETPM" -> <<155, 219, 228>>
    [] mn = "PAUSE" -> <<243, 144>> [] mn = "LFENCE" -> <<15, 174, 232>> [] mn = "MFENCE" -> <<15, 174, 240>>
    [] mn = "SFENCE" -> <<15, 174, 248>> [] mn = "MONITOR" -> <<15, 1, 200>> [] mn = "MWAIT" -> <<15, 1, 201>>
    [] mn = "RDTSCP" -> <<15, 1, 249>> [] mn = "SWAPGS" -> <<15, 1, 248>> [] mn = "VMCALL" -> <<15, 1, 193>>
    [] mn = "VMLAUNCH" -> <<15, 1, 194>> [] mn = "VMRESUME" -> <<15, 1, 195>> [] mn = "VMXOFF" -> <<15, 1, 196>>
    [] mn = "XGETBV" -> <<15, 1, 208>> [] mn = "XSETBV" -> <<15, 1, 209>> [] mn = "GETSEC" -> <<15, 55>>
    [] mn = "LOADALL" -> <<15, 7>>
    [] mn = "AAM" -> <<212, 10>> [] mn = "AAD" -> <<213, 10>>
    [] OTHER -> << >>

(***************************************************************************)
(* The decoder.                                                            *)
(***************************************************************************)
Decode(bs, bits) ==
  LET np   == NPrefix(bs)
      pfx  == {bs[i] : i \in 1..np}
      osz  == IF 102 \in pfx THEN (IF bits = 16 THEN 32 ELSE 16) ELSE bits
      asz  == IF 103 \in pfx THEN (IF bits = 16 THEN 32 ELSE 16) ELSE bits
      sgs  == {SegOfPrefix(b) : b \in pfx} \ {-1}
      sg   == IF sgs = {} THEN -1 ELSE CHOOSE s \in sgs : TRUE
      o    == np + 1                                   \* position of the opcode byte
      n    == Len(bs)
      ow   == osz \div 8
      aw   == asz \div 8
  IN
  IF o > n \/ Cardinality(sgs) > 1 THEN Bad
  ELSE
  LET op  == bs[o]
      mr  == ModRM(bs, o + 1, asz, sg)                 \* ModR/M right after a one-byte opcode
      Imm(p, k) == Sub(bs, p, p + k - 1)               \* k immediate bytes at position p
      HaveTo(p) == p <= n                              \* bytes up to position p exist
      \* common shapes -------------------------------------------------------
      EG(mn, w) == IF mr.ok THEN Ins(np + 1 + mr.n, mn, w, <<RMop(mr, w), R(w, mr.reg)>>) ELSE Bad
      GE(mn, w) == IF mr.ok THEN Ins(np + 1 + mr.n, mn, w, <<R(w, mr.reg), RMop(mr, w)>>) ELSE Bad
      EI(mn, w, k, ext) ==   \* r/m, immediate of k bytes, (sign-)extended to ext bytes
          IF mr.ok /\ HaveTo(o + mr.n + k)
          THEN Ins(np + 1 + mr.n + k, mn, w, <<RMop(mr, w), I(SignExt(Imm(o + 1 + mr.n, k), ext))>>)
          ELSE Bad
      E1(mn, w) == IF mr.ok THEN Ins(np + 1 + mr.n, mn, w, <<RMop(mr, w)>>) ELSE Bad
      lo3 == op % 8
      hi5 == op \div 8
  IN
  \* ---------------------------------------------------------------- 00-3F
  IF op < 64 /\ lo3 < 6 THEN
     LET mn == AluName[hi5 + 1] IN
     CASE lo3 = 0 -> EG(mn, 8) [] lo3 = 1 -> EG(mn, osz) [] lo3 = 2 -> GE(mn, 8) [] lo3 = 3 -> GE(mn, osz)
       [] lo3 = 4 -> IF HaveTo(o + 1) THEN Ins(np + 2, mn, 8, <<R(8, 0), I(Imm(o + 1, 1))>>) ELSE Bad
       [] lo3 = 5 -> IF HaveTo(o + ow) THEN Ins(np + 1 + ow, mn, osz, <<R(osz, 0), I(Imm(o + 1, ow))>>) ELSE Bad
  ELSE IF op \in {6, 14, 22, 30} THEN Ins(np + 1, "PUSH", osz, <<S(hi5)>>)
  ELSE IF op \in {7, 23, 31} THEN Ins(np + 1, "POP", osz, <<S(hi5)>>)
  ELSE IF op \in 64..71 THEN Ins(np + 1, "INC", osz, <<R(osz, lo3)>>)
  ELSE IF op \in 72..79 THEN Ins(np + 1, "DEC", osz, <<R(osz, lo3)>>)
  ELSE IF op \in 80..87 THEN Ins(np + 1, "PUSH", osz, <<R(osz, lo3)>>)
  ELSE IF op \in 88..95 THEN Ins(np + 1, "POP", osz, <<R(osz, lo3)>>)
  ELSE IF op = 104 THEN IF HaveTo(o + ow) THEN Ins(np + 1 + ow, "PUSH", osz, <<I(Imm(o + 1, ow))>>) ELSE Bad
  ELSE IF op = 106 THEN IF HaveTo(o + 1) THEN Ins(np + 2, "PUSH", osz, <<I(SignExt(Imm(o + 1, 1), ow))>>) ELSE Bad
  ELSE IF op = 105 THEN
     IF mr.ok /\ HaveTo(o + mr.n + ow)
     THEN Ins(np + 1 + mr.n + ow, "IMUL", osz, <<R(osz, mr.reg), RMop(mr, osz), I(Imm(o + 1 + mr.n, ow))>>) ELSE Bad
  ELSE IF op = 107 THEN
     IF mr.ok /\ HaveTo(o + mr.n + 1)
     THEN Ins(np + 1 + mr.n + 1, "IMUL", osz, <<R(osz, mr.reg), RMop(mr, osz), I(SignExt(Imm(o + 1 + mr.n, 1), ow))>>) ELSE Bad
  ELSE IF op \in 112..127 THEN
     IF HaveTo(o + 1) THEN Ins(np + 2, "J" \o CCName[op - 111], 8, <<Rel(SLE(Imm(o + 1, 1)))>>) ELSE Bad
  ELSE IF op = 128 THEN IF mr.ok THEN EI(AluName[mr.reg + 1], 8, 1, 1) ELSE Bad
  ELSE IF op = 129 THEN IF mr.ok THEN EI(AluName[mr.reg + 1], osz, ow, ow) ELSE Bad
  ELSE IF op = 131 THEN IF mr.ok THEN EI(AluName[mr.reg + 1], osz, 1, ow) ELSE Bad
  ELSE IF op = 132 THEN EG("TEST", 8) ELSE IF op = 133 THEN EG("TEST", osz)
  ELSE IF op = 134 THEN EG("XCHG", 8) ELSE IF op = 135 THEN EG("XCHG", osz)
  ELSE IF op = 136 THEN EG("MOV", 8) ELSE IF op = 137 THEN EG("MOV", osz)
  ELSE IF op = 138 THEN GE("MOV", 8) ELSE IF op = 139 THEN GE("MOV", osz)
  ELSE IF op = 140 THEN
     IF mr.ok /\ mr.reg < 6 THEN Ins(np + 1 + mr.n, "MOV", IF mr.mod = 3 THEN osz ELSE 16,
                                     <<RMop(mr, IF mr.mod = 3 THEN osz ELSE 16), S(mr.reg)>>) ELSE Bad
  ELSE IF op = 142 THEN
     IF mr.ok /\ mr.reg < 6 /\ mr.reg # 1 THEN Ins(np + 1 + mr.n, "MOV", 16, <<S(mr.reg), RMop(mr, 16)>>) ELSE Bad
  ELSE IF op = 141 THEN IF mr.ok /\ mr.mod # 3 THEN GE("LEA", osz) ELSE Bad
  ELSE IF op = 143 THEN IF mr.ok /\ mr.reg = 0 THEN E1("POP", osz) ELSE Bad
  ELSE IF op \in 160..163 THEN
     IF HaveTo(o + aw) THEN
        LET w == IF op \in {160, 162} THEN 8 ELSE osz
            m == Mem(asz, -1, -1, 1, Imm(o + 1, aw), sg)
        IN Ins(np + 1 + aw, "MOV", w, IF op < 162 THEN <<R(w, 0), m>> ELSE <<m, R(w, 0)>>)
     ELSE Bad
  ELSE IF op \in 176..183 THEN IF HaveTo(o + 1) THEN Ins(np + 2, "MOV", 8, <<R(8, lo3), I(Imm(o + 1, 1))>>) ELSE Bad
  ELSE IF op \in 184..191 THEN IF HaveTo(o + ow) THEN Ins(np + 1 + ow, "MOV", osz, <<R(osz, lo3), I(Imm(o + 1, ow))>>) ELSE Bad
  ELSE IF op = 192 THEN IF mr.ok THEN EI(ShiftName[mr.reg + 1], 8, 1, 1) ELSE Bad
  ELSE IF op = 193 THEN IF mr.ok THEN EI(ShiftName[mr.reg + 1], osz, 1, 1) ELSE Bad
  ELSE IF op \in {208, 209} THEN
     IF mr.ok THEN Ins(np + 1 + mr.n, ShiftName[mr.reg + 1], IF op = 208 THEN 8 ELSE osz,
                       <<RMop(mr, IF op = 208 THEN 8 ELSE osz), I(<<1>>)>>) ELSE Bad
  ELSE IF op \in {210, 211} THEN
     IF mr.ok THEN Ins(np + 1 + mr.n, ShiftName[mr.reg + 1], IF op = 210 THEN 8 ELSE osz,
                       <<RMop(mr, IF op = 210 THEN 8 ELSE osz), R(8, 1)>>) ELSE Bad
  ELSE IF op = 194 THEN IF HaveTo(o + 2) THEN Ins(np + 3, "RET", 0, <<I(Imm(o + 1, 2))>>) ELSE Bad
  ELSE IF op = 202 THEN IF HaveTo(o + 2) THEN Ins(np + 3, "RETF", 0, <<I(Imm(o + 1, 2))>>) ELSE Bad
  ELSE IF op = 198 THEN IF mr.ok /\ mr.reg = 0 THEN EI("MOV", 8, 1, 1) ELSE Bad
  ELSE IF op = 199 THEN IF mr.ok /\ mr.reg = 0 THEN EI("MOV", osz, ow, ow) ELSE Bad
  ELSE IF op = 205 THEN IF HaveTo(o + 1) THEN Ins(np + 2, "INT", 0, <<I(Imm(o + 1, 1))>>) ELSE Bad
  ELSE IF op \in {212, 213} THEN
     IF HaveTo(o + 1) THEN Ins(np + 2, IF op = 212 THEN "AAM" ELSE "AAD", 0, <<I(Imm(o + 1, 1))>>) ELSE Bad
  ELSE IF op = 228 THEN IF HaveTo(o + 1) THEN Ins(np + 2, "IN", 8, <<R(8, 0), I(Imm(o + 1, 1))>>) ELSE Bad
  ELSE IF op = 229 THEN IF HaveTo(o + 1) THEN Ins(np + 2, "IN", osz, <<R(osz, 0), I(Imm(o + 1, 1))>>) ELSE Bad
  ELSE IF op = 230 THEN IF HaveTo(o + 1) THEN Ins(np + 2, "OUT", 8, <<I(Imm(o + 1, 1)), R(8, 0)>>) ELSE Bad
  ELSE IF op = 231 THEN IF HaveTo(o + 1) THEN Ins(np + 2, "OUT", osz, <<I(Imm(o + 1, 1)), R(osz, 0)>>) ELSE Bad
  ELSE IF op = 236 THEN Ins(np + 1, "IN", 8, <<R(8, 0), R(16, 2)>>)
  ELSE IF op = 237 THEN Ins(np + 1, "IN", osz, <<R(osz, 0), R(16, 2)>>)
  ELSE IF op = 238 THEN Ins(np + 1, "OUT", 8, <<R(16, 2), R(8, 0)>>)
  ELSE IF op = 239 THEN Ins(np + 1, "OUT", osz, <<R(16, 2), R(osz, 0)>>)
  ELSE IF op \in {232, 233} THEN
     IF HaveTo(o + ow) THEN Ins(np + 1 + ow, IF op = 232 THEN "CALL" ELSE "JMP", osz, <<Rel(SLE(Imm(o + 1, ow)))>>) ELSE Bad
  ELSE IF op = 235 THEN IF HaveTo(o + 1) THEN Ins(np + 2, "JMP", 8, <<Rel(SLE(Imm(o + 1, 1)))>>) ELSE Bad
  ELSE IF op = 234 THEN
     IF HaveTo(o + ow + 2) THEN Ins(np + 1 + ow + 2, "JMPFAR", osz,
                                    <<[t |-> "far", seg |-> Imm(o + 1 + ow, 2), off |-> Imm(o + 1, ow)]>>) ELSE Bad
  ELSE IF op = 246 THEN
     IF ~mr.ok THEN Bad
     ELSE IF mr.reg < 2 THEN EI("TEST", 8, 1, 1) ELSE E1(Grp3Name[mr.reg + 1], 8)
  ELSE IF op = 247 THEN
     IF ~mr.ok THEN Bad
     ELSE IF mr.reg < 2 THEN EI("TEST", osz, ow, ow) ELSE E1(Grp3Name[mr.reg + 1], osz)
  ELSE IF op = 254 THEN
     IF mr.ok /\ mr.reg < 2 THEN E1(IF mr.reg = 0 THEN "INC" ELSE "DEC", 8) ELSE Bad
  ELSE IF op = 255 THEN
     IF ~mr.ok THEN Bad
     ELSE CASE mr.reg = 0 -> E1("INC", osz) [] mr.reg = 1 -> E1("DEC", osz)
            [] mr.reg = 2 -> E1("CALLIND", osz) [] mr.reg = 4 -> E1("JMPIND", osz)
            [] mr.reg = 3 -> IF mr.mod # 3 THEN E1("CALLFARIND", osz) ELSE Bad
            [] mr.reg = 5 -> IF mr.mod # 3 THEN E1("JMPFARIND", osz) ELSE Bad
            [] mr.reg = 6 -> E1("PUSH", osz) [] OTHER -> Bad
  ELSE IF op \in 145..151 THEN Ins(np + 1, "XCHG", osz, <<R(osz, 0), R(osz, lo3)>>)          \* 90+r (90 itself is NOP)
  ELSE IF op \in 224..227 THEN              \* LOOPNE LOOPE LOOP J(E)CXZ: the counter is CX or ECX by ADDRESS size
     IF HaveTo(o + 1) THEN Ins(np + 2, <<"LOOPNE", "LOOPE", "LOOP", IF asz = 16 THEN "JCXZ" ELSE "JECXZ">>[op - 223], osz, <<Rel(SLE(Imm(o + 1, 1)))>>) ELSE Bad
  ELSE IF op = 200 THEN IF HaveTo(o + 3) THEN Ins(np + 4, "ENTER", 0, <<I(Imm(o + 1, 2)), I(Imm(o + 3, 1))>>) ELSE Bad
  ELSE IF op \in {196, 197} THEN            \* LES / LDS r, m16:16/32
     IF mr.ok /\ mr.mod # 3 THEN Ins(np + 1 + mr.n, IF op = 196 THEN "LES" ELSE "LDS", osz, <<R(osz, mr.reg), mr.mem>>) ELSE Bad
  ELSE IF SizedNoOp(op, osz) # "" THEN Ins(np + 1, SizedNoOp(op, osz), osz, << >>)
  ELSE IF OneByteNoOp(op) # "" THEN Ins(np + 1, OneByteNoOp(op), 0, << >>)
  ELSE IF op = 15 THEN
     IF ~HaveTo(o + 1) THEN Bad
     ELSE
     LET op2 == bs[o + 1]
         mr2 == ModRM(bs, o + 2, asz, sg)
     IN
     IF op2 \in 128..143 THEN
        IF HaveTo(o + 1 + ow) THEN Ins(np + 2 + ow, "J" \o CCName[op2 - 127], osz, <<Rel(SLE(Imm(o + 2, ow)))>>) ELSE Bad
     ELSE IF op2 = 1 THEN
        IF mr2.ok /\ mr2.mod # 3 /\ mr2.reg \in {0, 1, 2, 3}
        THEN Ins(np + 2 + mr2.n, <<"SGDT", "SIDT", "LGDT", "LIDT">>[mr2.reg + 1], osz, <<mr2.mem>>)
        ELSE IF mr2.ok /\ mr2.reg = 4 THEN Ins(np + 2 + mr2.n, "SMSW", IF mr2.mod = 3 THEN osz ELSE 16, <<RMop(mr2, IF mr2.mod = 3 THEN osz ELSE 16)>>)
        ELSE IF mr2.ok /\ mr2.reg = 6 THEN Ins(np + 2 + mr2.n, "LMSW", 16, <<RMop(mr2, 16)>>)
        ELSE IF mr2.ok /\ mr2.reg = 7 /\ mr2.mod # 3 THEN Ins(np + 2 + mr2.n, "INVLPG", 0, <<mr2.mem>>)
        ELSE Bad
     ELSE IF op2 = 0 THEN                    \* SLDT STR LLDT LTR VERR VERW
        IF mr2.ok /\ mr2.reg < 6
        THEN LET w == IF mr2.reg < 2 /\ mr2.mod = 3 THEN osz ELSE 16 IN
             Ins(np + 2 + mr2.n, <<"SLDT", "STR", "LLDT", "LTR", "VERR", "VERW">>[mr2.reg + 1], w, <<RMop(mr2, w)>>)
        ELSE Bad
     ELSE IF op2 \in {182, 183, 190, 191} THEN        \* MOVZX / MOVSX r, r/m8 | r/m16
        IF mr2.ok THEN LET sw == IF op2 \in {182, 190} THEN 8 ELSE 16 IN
                       Ins(np + 2 + mr2.n, IF op2 < 184 THEN "MOVZX" ELSE "MOVSX", osz, <<R(osz, mr2.reg), RMop(mr2, sw)>>)
        ELSE Bad
     ELSE IF op2 \in 144..159 THEN
        IF mr2.ok THEN Ins(np + 2 + mr2.n, "SET" \o CCName[op2 - 143], 8, <<RMop(mr2, 8)>>) ELSE Bad
     ELSE IF op2 \in {178, 180, 181} THEN             \* LSS LFS LGS
        IF mr2.ok /\ mr2.mod # 3 THEN Ins(np + 2 + mr2.n, CASE op2 = 178 -> "LSS" [] op2 = 180 -> "LFS" [] op2 = 181 -> "LGS", osz, <<R(osz, mr2.reg), mr2.mem>>) ELSE Bad
     ELSE IF op2 \in 200..207 THEN Ins(np + 2, "BSWAP", 32, <<R(32, op2 - 200)>>)
     ELSE IF op2 = 32 THEN
        IF mr2.ok /\ mr2.mod = 3 THEN Ins(np + 3, "MOV", 32, <<R(32, mr2.rm), C(mr2.reg)>>) ELSE Bad
     ELSE IF op2 = 34 THEN
        IF mr2.ok /\ mr2.mod = 3 THEN Ins(np + 3, "MOV", 32, <<C(mr2.reg), R(32, mr2.rm)>>) ELSE Bad
     ELSE IF op2 = 160 THEN Ins(np + 2, "PUSH", osz, <<S(4)>>)
     ELSE IF op2 = 161 THEN Ins(np + 2, "POP", osz, <<S(4)>>)
     ELSE IF op2 = 168 THEN Ins(np + 2, "PUSH", osz, <<S(5)>>)
     ELSE IF op2 = 169 THEN Ins(np + 2, "POP", osz, <<S(5)>>)
     ELSE IF op2 = 175 THEN
        IF mr2.ok THEN Ins(np + 2 + mr2.n, "IMUL", osz, <<R(osz, mr2.reg), RMop(mr2, osz)>>) ELSE Bad
     ELSE IF TwoByteNoOp(op2) # "" THEN Ins(np + 2, TwoByteNoOp(op2), 0, << >>)
     ELSE Bad
  ELSE Bad

=============================================================================
