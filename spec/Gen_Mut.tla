-------------------------------- MODULE Gen_Mut --------------------------------
(* Generator (direction A) for C13: token-level mutation operators applied to    *)
(* seed programs.  A cell: [op, at, with]: operation, token position (as a        *)
(* fraction index 0..Grain-1 of the token sequence) and replacement token class.  *)
EXTENDS Integers, Sequences, FiniteSets, Json, TLC
CONSTANT Grain
Ops == {"delete", "insert", "replace", "duplicate", "swap", "dupline", "delline"}
Toks == {"comma", "colon", "lbracket", "rbracket", "plus", "minus", "star", "slash", "lparen", "rparen", "quote", "squote", "bignum",
         "hexjunk", "ident", "reg", "opcode", "EQU", "GLOBAL", "BYTE", "dollar", "lbrace", "nul", "tab", "cr", "semicolon", "hash", "dot", "backslash", "utf8", "emptystr", "emptychr", "blankstr", "segoff"}
Universe == {[op |-> o, at |-> a, with |-> w] : o \in Ops, a \in 0..(Grain - 1), w \in Toks}
VARIABLE c
Init == c \in Universe
Next == UNCHANGED c
Emit == PrintT(<<"CASE", ToJson(c)>>)
=============================================================================
