------------------------------- MODULE History -------------------------------
(* C10: a gosk process as a sequence of assemble calls.  The sequential        *)
(* specification is a pure function: the result of Assemble(p, ...) is Ref[p], *)
(* whatever was assembled before, whether the parse tree is re-used, and       *)
(* whatever the destination file contained.  The only state a call may change  *)
(* is the destination file (which it overwrites completely).                   *)
EXTENDS Integers, Sequences, FiniteSets, Json, TLC
CONSTANTS NProg, MaxLen

Pre == {"absent", "short", "long"}
Call == [p : 0..(NProg - 1), reuse : {0, 1}, pre : Pre]

VARIABLES hist,      \* calls made so far
          dst,       \* content of the destination: "none" | <<"img", p>> | "garbage"
          parsed     \* programs whose parse tree is cached in the process
vars == <<hist, dst, parsed>>

Init == hist = << >> /\ dst = "none" /\ parsed = {}

Assemble(c) ==
  /\ Len(hist) < MaxLen
  /\ (c.reuse = 1 => c.p \in parsed)                 \* a tree can only be re-used after it was parsed
  /\ hist' = Append(hist, c)
  /\ parsed' = parsed \cup {c.p}
  /\ dst' = <<"img", c.p>>                           \* the image of p, independent of c.pre, hist and parsed

Next == \E c \in Call : Assemble(c)
Spec == Init /\ [][Next]_vars

\* the property: after every call the destination holds exactly the reference image of the program assembled
Inv_C10 == hist # << >> => dst = <<"img", hist[Len(hist)].p>>
\* export (direction A): every history of maximal length
Export == Len(hist) = MaxLen => PrintT(<<"CASE", ToJson(hist)>>)
=============================================================================
