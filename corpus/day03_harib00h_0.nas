; haribote-os
; TAB=4

; BOOT_INFO関係
CYLS	EQU		0x0ff0			; ブートセクタが設定する
LEDS	EQU		0x0ff1
VMODE	EQU		0x0ff2			; 色数に関する情報。何ビットカラーか？
SCRNX	EQU		0x0ff4			; 解像度のX
SCRNY	EQU		0x0ff6			; 解像度のY
VRAM	EQU		0x0ff8			; グラフィックバッファの開始番地

		ORG		0xc200			; このプログラムがどこに読み込まれるのか

		MOV		AL,0x13			; VGAグラフィックス、320x200x8bitカラー
		MOV		AH,0x00
		INT		0x10
		MOV		BYTE [VMODE],8	; 画面モードをメモする
		MOV		WORD [SCRNX],320
		MOV		WORD [SCRNY],200
		MOV		DWORD [VRAM],0x000a0000

; キーボードのLED状態をBIOSに教えてもらう

		MOV		AH,0x02
		INT		0x16 			; keyboard BIOS
		MOV		[LEDS],AL

fin:
		HLT
		JMP		fin
