; naskfunc (extended) - functions in the style of haribote-os day 6..9, written for /verif/corpus
; TAB=4

[FORMAT "WCOFF"]				; object file mode
[INSTRSET "i486p"]				; 486 instructions
[BITS 32]						; 32-bit mode
[FILE "naskfunc.nas"]			; source file name

		GLOBAL	_io_hlt, _io_cli, _io_sti, _io_stihlt
		GLOBAL	_io_in8,  _io_in16,  _io_in32
		GLOBAL	_io_out8, _io_out16, _io_out32
		GLOBAL	_io_load_eflags, _io_store_eflags
		GLOBAL	_load_gdtr, _load_cr0, _store_cr0
		GLOBAL	_memtest_sub, _copy_bytes

[SECTION .text]

_io_hlt:	; void io_hlt(void);
		HLT
		RET

_io_cli:	; void io_cli(void);
		CLI
		RET

_io_sti:	; void io_sti(void);
		STI
		RET

_io_stihlt:	; void io_stihlt(void);
		STI
		HLT
		RET

_io_in8:	; int io_in8(int port);
		MOV		EDX,[ESP+4]		; port
		MOV		EAX,0
		IN		AL,DX
		RET

_io_in16:	; int io_in16(int port);
		MOV		EDX,[ESP+4]		; port
		MOV		EAX,0
		IN		AX,DX
		RET

_io_in32:	; int io_in32(int port);
		MOV		EDX,[ESP+4]		; port
		IN		EAX,DX
		RET

_io_out8:	; void io_out8(int port, int data);
		MOV		EDX,[ESP+4]		; port
		MOV		AL,[ESP+8]		; data
		OUT		DX,AL
		RET

_io_out16:	; void io_out16(int port, int data);
		MOV		EDX,[ESP+4]		; port
		MOV		EAX,[ESP+8]		; data
		OUT		DX,AX
		RET

_io_out32:	; void io_out32(int port, int data);
		MOV		EDX,[ESP+4]		; port
		MOV		EAX,[ESP+8]		; data
		OUT		DX,EAX
		RET

_io_load_eflags:	; int io_load_eflags(void);
		PUSHFD		; PUSH EFLAGS
		POP		EAX
		RET

_io_store_eflags:	; void io_store_eflags(int eflags);
		MOV		EAX,[ESP+4]
		PUSH	EAX
		POPFD		; POP EFLAGS
		RET

_load_gdtr:		; void load_gdtr(int limit, int addr);
		MOV		AX,[ESP+4]		; limit
		MOV		[ESP+6],AX
		LGDT	[ESP+6]
		RET

_load_cr0:		; int load_cr0(void);
		MOV		EAX,CR0
		RET

_store_cr0:		; void store_cr0(int cr0);
		MOV		EAX,[ESP+4]
		MOV		CR0,EAX
		RET

_memtest_sub:	; unsigned int memtest_sub(unsigned int start, unsigned int end)
		PUSH	EDI						; (EBX, ESI, EDI are used)
		PUSH	ESI
		PUSH	EBX
		MOV		ESI,0xaa55aa55			; pat0 = 0xaa55aa55;
		MOV		EDI,0x55aa55aa			; pat1 = 0x55aa55aa;
		MOV		EAX,[ESP+12+4]			; i = start;
mts_loop:
		MOV		EBX,EAX
		ADD		EBX,0xffc				; p = i + 0xffc;
		MOV		EDX,[EBX]				; old = *p;
		MOV		[EBX],ESI				; *p = pat0;
		XOR		DWORD [EBX],0xffffffff	; *p ^= 0xffffffff;
		CMP		EDI,[EBX]				; if (*p != pat1) goto fin;
		JNE		mts_fin
		XOR		DWORD [EBX],0xffffffff	; *p ^= 0xffffffff;
		CMP		ESI,[EBX]				; if (*p != pat0) goto fin;
		JNE		mts_fin
		MOV		[EBX],EDX				; *p = old;
		ADD		EAX,0x1000				; i += 0x1000;
		CMP		EAX,[ESP+12+8]			; if (i <= end) goto mts_loop;
		JBE		mts_loop
		POP		EBX
		POP		ESI
		POP		EDI
		RET
mts_fin:
		MOV		[EBX],EDX				; *p = old;
		POP		EBX
		POP		ESI
		POP		EDI
		RET

_copy_bytes:	; void copy_bytes(char *dst, char *src, int n)
		PUSH	ESI
		PUSH	EDI
		MOV		EDI,[ESP+8+4]
		MOV		ESI,[ESP+8+8]
		MOV		ECX,[ESP+8+12]
cb_loop:
		CMP		ECX,0
		JE		cb_end
		MOV		AL,[ESI]
		MOV		[EDI],AL
		ADD		ESI,1
		ADD		EDI,1
		SUB		ECX,1
		JMP		cb_loop
cb_end:
		POP		EDI
		POP		ESI
		RET
