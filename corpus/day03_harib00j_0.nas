; naskfunc
; TAB=4

[FORMAT "WCOFF"]				; オブジェクトファイルを作るモード
[BITS 32]						; 32ビットモード用の機械語を作らせる


; オブジェクトファイルのための情報

[FILE "naskfunc.nas"]			; ソースファイル名情報

		GLOBAL	_io_hlt			; このプログラムに含まれる関数名


; 以下は実際の関数

[SECTION .text]		; オブジェクトファイルではこれを書いてからプログラムを書く

_io_hlt:	; void io_hlt(void);
    	HLT
    	RET
