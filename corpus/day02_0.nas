; hello-os
; TAB=4

		ORG		0x7c00			; このプログラムがどこに読み込まれるのか

; 以下は標準的なFAT12フォーマットフロッピーディスクのための記述

		JMP		entry
		DB		0x90
		DB		"HELLOIPL"		; ブートセクタの名前を自由に書いてよい（8バイト）
		DW		512				; 1セクタの大きさ（512にしなければいけない）
		DB		1				; クラスタの大きさ（1セクタにしなければいけない）
		DW		1				; FATがどこから始まるか（普通は1セクタ目からにする）
		DB		2				; FATの個数（2にしなければいけない）
		DW		224				; ルートディレクトリ領域の大きさ（普通は224エントリにする）
		DW		2880			; このドライブの大きさ（2880セクタにしなければいけない）
		DB		0xf0			; メディアのタイプ（0xf0にしなければいけない）
		DW		9				; FAT領域の長さ（9セクタにしなければいけない）
		DW		18				; 1トラックにいくつのセクタがあるか（18にしなければいけない）
		DW		2				; ヘッドの数（2にしなければいけない）
		DD		0				; パーティションを使ってないのでここは必ず0
		DD		2880			; このドライブ大きさをもう一度書く
		DB		0,0,0x29		; よくわからないけどこの値にしておくといいらしい
		DD		0xffffffff		; たぶんボリュームシリアル番号
		DB		"HELLO-OS   "	; ディスクの名前（11バイト）
		DB		"FAT12   "		; フォーマットの名前（8バイト）
		RESB	18				; とりあえず18バイトあけておく

; プログラム本体

entry:
		MOV		AX,0			; レジスタ初期化
		MOV		SS,AX
		MOV		SP,0x7c00
		MOV		DS,AX
		MOV		ES,AX

		MOV		SI,msg
putloop:
		MOV		AL,[SI]
		ADD		SI,1			; SIに1を足す
		CMP		AL,0
		JE		fin
		MOV		AH,0x0e			; 一文字表示ファンクション
		MOV		BX,15			; カラーコード
		INT		0x10			; ビデオBIOS呼び出し
		JMP		putloop
fin:
		HLT						; 何かあるまでCPUを停止させる
		JMP		fin				; 無限ループ

msg:
		DB		0x0a, 0x0a		; 改行を2つ
		DB		"hello, world"
		DB		0x0a			; 改行
		DB		0

		RESB	0x7dfe-$		; 0x7dfeまでを0x00で埋める命令

		DB		0x55, 0xaa

; 以下はブートセクタ以外の部分の記述

		DB		0xf0, 0xff, 0xff, 0x00, 0x00, 0x00, 0x00, 0x00
		RESB	4600
		DB		0xf0, 0xff, 0xff, 0x00, 0x00, 0x00, 0x00, 0x00
		RESB	1469432
