; haribote-ipl
; TAB=4

		ORG		0x7c00			; このプログラムがどこに読み込まれるのか

; 以下は標準的なFAT12フォーマットフロッピーディスクのための記述

		JMP		entry
		DB		0x90
		DB		"HARIBOTE"		; ブートセクタの名前を自由に書いてよい（8バイト）
		DW		512				; 1セクタの大きさ（512にしなければいけない）
		DB		1				; クラスタの大きさ（1セクタにしなければいけない）
		DW		1				; FATがどこから始まるか（普通は1セクタ目からにする）
		DB		2				; FATの個数（2にしなければいけない）
		DW		224				; ルートディレクトリ領域の大きさ（普通は224エントリにする）
		DW		2880			; このドライブの大きさ（2880セクタにしなければいけない）
		DB		0xf0			; メディアのタイプ（0xf0にしなければいけない）
		DW		9				; FAT領域の長さ（9セクタにしなければいけない）
		DW		18				; 1トラックにいくつのセクタがあるか（18にしなければいけない）
		DW		2				; ヘッドの数（2にしなければいけない）
		DD		0				; パーティションを使ってないのでここは必ず0
		DD		2880			; このドライブ大きさをもう一度書く
		DB		0,0,0x29		; よくわからないけどこの値にしておくといいらしい
		DD		0xffffffff		; たぶんボリュームシリアル番号
		DB		"HARIBOTEOS "	; ディスクの名前（11バイト）
		DB		"FAT12   "		; フォーマットの名前（8バイト）
		RESB	18				; とりあえず18バイトあけておく

; プログラム本体

entry:
		MOV		AX,0			; レジスタ初期化
		MOV		SS,AX
		MOV		SP,0x7c00
		MOV		DS,AX

; ディスクを読む

		MOV		AX,0x0820
		MOV		ES,AX
		MOV		CH,0			; シリンダ0
		MOV		DH,0			; ヘッド0
		MOV		CL,2			; セクタ2
readloop:
		MOV		SI,0			; 失敗回数を数えるレジスタ
retry:
		MOV		AH,0x02			; AH=0x02 : ディスク読み込み
		MOV		AL,1			; 1セクタ
		MOV		BX,0
		MOV		DL,0x00			; Aドライブ
		INT		0x13			; ディスクBIOS呼び出し
		JNC		next			; エラーがおきなければnextへ
		ADD		SI,1			; SIに1を足す
		CMP		SI,5			; SIと5を比較
		JAE		error			; SI >= 5 だったらerrorへ
		MOV		AH,0x00
		MOV		DL,0x00			; Aドライブ
		INT		0x13			; ドライブのリセット
		JMP		retry
next:
		MOV		AX,ES			; アドレスを0x200進める
		ADD		AX,0x0020
		MOV		ES,AX			; ADD ES,0x020 という命令がないのでこうしている
		ADD		CL,1			; CLに1を足す
		CMP		CL,18			; CLと18を比較
		JBE		readloop		; CL <= 18 だったらreadloopへ

; 読み終わったけどとりあえずやることないので寝る

fin:
		HLT						; 何かあるまでCPUを停止させる
		JMP		fin				; 無限ループ

error:
		MOV		SI,msg
putloop:
		MOV		AL,[SI]
		ADD		SI,1			; SIに1を足す
		CMP		AL,0
		JE		fin
		MOV		AH,0x0e			; 一文字表示ファンクション
		MOV		BX,15			; カラーコード
		INT		0x10			; ビデオBIOS呼び出し
		JMP		putloop
msg:
		DB		0x0a, 0x0a		; 改行を2つ
		DB		"load error"
		DB		0x0a			; 改行
		DB		0

		RESB	0x7dfe-$		; 0x7dfeまでを0x00で埋める命令

		DB		0x55, 0xaa
