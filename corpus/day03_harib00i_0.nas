; haribote-os boot asm
; TAB=4

BOTPAK	EQU		0x00280000		; bootpackのロード先
DSKCAC	EQU		0x00100000		; ディスクキャッシュの場所
DSKCAC0	EQU		0x00008000		; ディスクキャッシュの場所（リアルモード）

; BOOT_INFO関係
CYLS	EQU		0x0ff0			; ブートセクタが設定する
LEDS	EQU		0x0ff1
VMODE	EQU		0x0ff2			; 色数に関する情報。何ビットカラーか？
SCRNX	EQU		0x0ff4			; 解像度のX
SCRNY	EQU		0x0ff6			; 解像度のY
VRAM	EQU		0x0ff8			; グラフィックバッファの開始番地

		ORG		0xc200			; このプログラムがどこに読み込まれるのか

; 画面モードを設定

		MOV		AL,0x13			; VGAグラフィックス、320x200x8bitカラー
		MOV		AH,0x00
		INT		0x10
		MOV		BYTE [VMODE],8	; 画面モードをメモする（C言語が参照する）
		MOV		WORD [SCRNX],320
		MOV		WORD [SCRNY],200
		MOV		DWORD [VRAM],0x000a0000

; キーボードのLED状態をBIOSに教えてもらう

		MOV		AH,0x02
		INT		0x16			; keyboard BIOS
		MOV		[LEDS],AL

; PICが一切の割り込みを受け付けないようにする
;	AT互換機の仕様では、PICの初期化をするなら、
;	こいつをCLI前にやっておかないと、たまにハングアップする
;	PICの初期化はあとでやる

		MOV		AL,0xff
		OUT		0x21,AL
		NOP						; OUT命令を連続させるとうまくいかない機種があるらしいので
		OUT		0xa1,AL

		CLI						; さらにCPUレベルでも割り込み禁止

; CPUから1MB以上のメモリにアクセスできるように、A20GATEを設定

		CALL	waitkbdout
		MOV		AL,0xd1
		OUT		0x64,AL
		CALL	waitkbdout
		MOV		AL,0xdf			; enable A20
		OUT		0x60,AL
		CALL	waitkbdout

; プロテクトモード移行

[INSTRSET "i486p"]				; 486の命令まで使いたいという記述

		LGDT	[GDTR0]			; 暫定GDTを設定
		MOV		EAX,CR0
		AND		EAX,0x7fffffff	; bit31を0にする（ページング禁止のため）
		OR		EAX,0x00000001	; bit0を1にする（プロテクトモード移行のため）
		MOV		CR0,EAX
		JMP		pipelineflush
pipelineflush:
		MOV		AX,1*8			;  読み書き可能セグメント32bit
		MOV		DS,AX
		MOV		ES,AX
		MOV		FS,AX
		MOV		GS,AX
		MOV		SS,AX

; bootpackの転送

		MOV		ESI,bootpack	; 転送元
		MOV		EDI,BOTPAK		; 転送先
		MOV		ECX,512*1024/4
		CALL	memcpy

; ついでにディスクデータも本来の位置へ転送

; まずはブートセクタから

		MOV		ESI,0x7c00		; 転送元
		MOV		EDI,DSKCAC		; 転送先
		MOV		ECX,512/4
		CALL	memcpy

; 残り全部

		MOV		ESI,DSKCAC0+512	; 転送元
		MOV		EDI,DSKCAC+512	; 転送先
		MOV		ECX,0
		MOV		CL,BYTE [CYLS]
		IMUL	ECX,512*18*2/4	; シリンダ数からバイト数/4に変換
		SUB		ECX,512/4		; IPLの分だけ差し引く
		CALL	memcpy

; asmheadでしなければいけないことは全部し終わったので、
;	あとはbootpackに任せる

; bootpackの起動

		MOV		EBX,BOTPAK
		MOV		ECX,[EBX+16]
		ADD		ECX,3			; ECX += 3;
		SHR		ECX,2			; ECX /= 4;
		JZ		skip			; 転送するべきものがない
		MOV		ESI,[EBX+20]	; 転送元
		ADD		ESI,EBX
		MOV		EDI,[EBX+12]	; 転送先
		CALL	memcpy
skip:
		MOV		ESP,[EBX+12]	; スタック初期値
		JMP		DWORD 2*8:0x0000001b

waitkbdout:
		IN		 AL,0x64
		AND		 AL,0x02
		JNZ		waitkbdout		; ANDの結果が0でなければwaitkbdoutへ
		RET

memcpy:
		MOV		EAX,[ESI]
		ADD		ESI,4
		MOV		[EDI],EAX
		ADD		EDI,4
		SUB		ECX,1
		JNZ		memcpy			; 引き算した結果が0でなければmemcpyへ
		RET
; memcpyはアドレスサイズプリフィクスを入れ忘れなければ、ストリング命令でも書ける

		ALIGNB	16
GDT0:
		RESB	8				; ヌルセレクタ
		DW		0xffff,0x0000,0x9200,0x00cf	; 読み書き可能セグメント32bit
		DW		0xffff,0x0000,0x9a28,0x0047	; 実行可能セグメント32bit（bootpack用）

		DW		0
GDTR0:
		DW		8*3-1
		DD		GDT0

		ALIGNB	16
bootpack:
