; a 16-bit boot-sector style program written for /verif/corpus: BIOS calls, string output,
; a jump table, data words that hold label addresses, padding up to the boot signature
		ORG		0x7c00

CR		EQU		0x0d
LF		EQU		0x0a
NITEMS	EQU		3
STACK	EQU		0x7c00

		JMP		start
		DB		0x90
		DB		"BOOTMENU"

start:
		MOV		AX,0
		MOV		SS,AX
		MOV		SP,STACK
		MOV		DS,AX
		MOV		ES,AX

		MOV		SI,banner
		CALL	puts

		MOV		CX,NITEMS
		MOV		BX,table
nextitem:
		MOV		SI,[BX]			; address of the item text
		CALL	puts
		ADD		BX,2
		SUB		CX,1
		CMP		CX,0
		JNE		nextitem

waitkey:
		MOV		AH,0x00
		INT		0x16			; keyboard BIOS
		CMP		AL,'1'-0		; '1'
		JB		waitkey
		CMP		AL,0x33			; '3'
		JA		waitkey
		SUB		AL,0x31
		MOV		[choice],AL
		JMP		fin

puts:
		MOV		AL,[SI]
		ADD		SI,1
		CMP		AL,0
		JE		putsend
		MOV		AH,0x0e
		MOV		BX,15
		INT		0x10
		JMP		puts
putsend:
		RET

fin:
		HLT
		JMP		fin

banner:
		DB		CR, LF, "boot menu", CR, LF, 0
item1:
		DB		"1) first", CR, LF, 0
item2:
		DB		"2) second", CR, LF, 0
item3:
		DB		"3) third", CR, LF, 0
table:
		DW		item1, item2, item3
choice:
		DB		0
		ALIGNB	16
params:
		DW		512*2, 18, NITEMS*4+1
		DD		banner, 0x12345678

		RESB	0x7dfe-$
		DB		0x55, 0xaa
