	ORG		0x7c00

				JMP		entry
				DB		0x90
				DB		"HELLOIPL"
				DW		512
				DB		1
				DW		1
				DB		2
				DW		224
				DW		2880
				DB		0xf0
				DW		9
				DW		18
				DW		2
				DD		0
				DD		2880
				DB		0,0,0x29
				DD		0xffffffff
				DB		"HELLO-OS   "
				DB		"FAT12   "
				RESB	18

		; プログラム本体

		entry:
				MOV		AX,0
				MOV		SS,AX
				MOV		SP,0x7c00
				MOV		DS,AX
				MOV		ES,AX
				MOV		SI,msg
		putloop:
				MOV		AL,[SI]
				ADD		SI,1
				CMP		AL,0
				JE		fin
				MOV		AH,0x0e
				MOV		BX,15
				INT		0x10
				JMP		putloop
		fin:
				HLT
				JMP		fin
		msg:
		
