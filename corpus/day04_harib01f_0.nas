
; naskfunc
; TAB=4

[FORMAT "WCOFF"]				; オブジェクトファイルを作るモード
[INSTRSET "i486p"]				; 486の命令まで使いたいという記述
[BITS 32]						; 32ビットモード用の機械語を作らせる
[FILE "naskfunc.nas"]			; ソースファイル名情報

		GLOBAL	_io_hlt, _io_cli, _io_sti, _io_stihlt
		GLOBAL	_io_in8,  _io_in16,  _io_in32
		GLOBAL	_io_out8, _io_out16, _io_out32
		GLOBAL	_io_load_eflags, _io_store_eflags

[SECTION .text]

_io_hlt:	; void io_hlt(void);
		HLT
		RET

_io_cli:	; void io_cli(void);
		CLI
		RET

_io_sti:	; void io_sti(void);
		STI
		RET

_io_stihlt:	; void io_stihlt(void);
		STI
		HLT
		RET

_io_in8:	; int io_in8(int port);
		MOV		EDX,[ESP+4]		; port
		MOV		EAX,0
		IN		AL,DX
		RET

_io_in16:	; int io_in16(int port);
		MOV		EDX,[ESP+4]		; port
		MOV		EAX,0
		IN		AX,DX
		RET

_io_in32:	; int io_in32(int port);
		MOV		EDX,[ESP+4]		; port
		IN		EAX,DX
		RET

_io_out8:	; void io_out8(int port, int data);
		MOV		EDX,[ESP+4]		; port
		MOV		AL,[ESP+8]		; data
		OUT		DX,AL
		RET

_io_out16:	; void io_out16(int port, int data);
		MOV		EDX,[ESP+4]		; port
		MOV		EAX,[ESP+8]		; data
		OUT		DX,AX
		RET

_io_out32:	; void io_out32(int port, int data);
		MOV		EDX,[ESP+4]		; port
		MOV		EAX,[ESP+8]		; data
		OUT		DX,EAX
		RET

_io_load_eflags:	; int io_load_eflags(void);
		PUSHFD		; PUSH EFLAGS という意味
		POP		EAX
		RET

_io_store_eflags:	; void io_store_eflags(int eflags);
		MOV		EAX,[ESP+4]
		PUSH	EAX
		POPFD		; POP EFLAGS という意味
		RET
