
; naskfunc
; TAB=4

[FORMAT "WCOFF"]				; オブジェクトファイルを作るモード
[INSTRSET "i486p"]				; 486の命令まで使いたいという記述
[BITS 32]						; 32ビットモード用の機械語を作らせる
[FILE "naskfunc.nas"]			; ソースファイル名情報

		GLOBAL	_io_hlt,_write_mem8

[SECTION .text]

_io_hlt:	; void io_hlt(void);
		HLT
		RET

_write_mem8:	; void write_mem8(int addr, int data);
		MOV		ECX,[ESP+4]		; [ESP+4]にaddrが入っているのでそれをECXに読み込む
		MOV		AL,[ESP+8]		; [ESP+8]にdataが入っているのでそれをALに読み込む
		MOV		[ECX],AL
		RET
