; arithmetic instructions test
		ORG		0x7c00

		; ADD test
		MOV		AX, 1
		ADD		AX, 2		; AX = 3

		; ADC test
		MOV		AX, 0xFFFF
		MOV		BX, 1
		ADD		AX, BX		; CF = 1
		MOV		AX, 1
		ADC		AX, 1		; AX = 3 (1 + 1 + CF)

		; SUB test
		MOV		AX, 5
		SUB		AX, 2		; AX = 3

		; SBB test
		MOV		AX, 0
		SUB		AX, 1		; CF = 1
		MOV		AX, 5
		SBB		AX, 2		; AX = 2 (5 - 2 - CF)

		; CMP test
		MOV		AX, 5
		CMP		AX, 5		; ZF = 1

		; INC/DEC test
		MOV		AX, 1
		INC		AX			; AX = 2
		DEC		AX			; AX = 1

		; NEG test
		MOV		AX, 5
		NEG		AX			; AX = -5

		; MUL test
		MOV		AX, 5
		MOV		BX, 2
		MUL		BX			; AX = 10

		; IMUL test
		MOV		AX, -5
		MOV		BX, 2
		IMUL	BX			; AX = -10

		; DIV test
		MOV		AX, 10
		MOV		BL, 2
		DIV		BL			; AL = 5

		; IDIV test
		MOV		AX, -10
		MOV		BL, 2
		IDIV	BL			; AL = -5

		HLT
