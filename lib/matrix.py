# The statement matrix of C07 / C13: every mnemonic of the grammar x operand-list shapes.
import json

import insflow

PSEUDO = {"DB", "DW", "DD", "DQ", "DT", "RESB", "RESW", "RESD", "RESQ", "REST", "ORG", "ALIGN", "ALIGNB", "END", "TIMES"}
BRANCH = {"JMP", "CALL", "JA", "JAE", "JB", "JBE", "JC", "JE", "JG", "JGE", "JL", "JLE", "JNA", "JNAE", "JNB", "JNBE", "JNC", "JNE", "JNG",
          "JNGE", "JNL", "JNLE", "JNO", "JNP", "JNS", "JNZ", "JO", "JP", "JPE", "JPO", "JS", "JZ", "JCXZ", "JECXZ", "LOOP", "LOOPE", "LOOPNE", "LOOPZ", "LOOPNZ"}

OPER = {
    "r8": [{"t": "r", "w": 8, "n": 0}, {"t": "r", "w": 8, "n": 7}],
    "r16": [{"t": "r", "w": 16, "n": 0}, {"t": "r", "w": 16, "n": 6}],
    "r32": [{"t": "r", "w": 32, "n": 0}, {"t": "r", "w": 32, "n": 5}],
    "sreg": [{"t": "s", "n": 3}, {"t": "s", "n": 0}],
    "creg": [{"t": "c", "n": 0}],
    "imm_s": [{"t": "i", "v": 1, "sty": "d"}, {"t": "i", "v": 16, "sty": "h"}],
    "imm_l": [{"t": "i", "v": 0x12345, "sty": "h"}, {"t": "i", "v": 300, "sty": "d"}],
    "m16": [{"t": "m", "w": 0, "aw": 16, "b": 3, "x": -1, "sc": 1, "d": 0, "hd": 0}],
    "m32": [{"t": "m", "w": 0, "aw": 32, "b": 0, "x": -1, "sc": 1, "d": 4, "hd": 1}],
    "bm": [{"t": "m", "w": 8, "aw": 16, "b": 6, "x": -1, "sc": 1, "d": 0, "hd": 0}],
    "wm": [{"t": "m", "w": 16, "aw": 16, "b": 3, "x": 6, "sc": 1, "d": 2, "hd": 1}],
    "dm": [{"t": "m", "w": 32, "aw": 32, "b": 3, "x": -1, "sc": 1, "d": 0, "hd": 0}],
    "lab": [{"t": "l", "nm": "known", "add": 0}],
    "m16bad": [{"t": "m", "w": 0, "aw": 16, "b": 1, "x": -1, "sc": 1, "d": 0, "hd": 0}, {"t": "m", "w": 0, "aw": 16, "b": 6, "x": 7, "sc": 1, "d": 0, "hd": 0},
               {"t": "m", "w": 0, "aw": 16, "b": 0, "x": -1, "sc": 1, "d": 2, "hd": 1}, {"t": "m", "w": 0, "aw": 16, "b": 4, "x": -1, "sc": 1, "d": 0, "hd": 0},
               {"t": "m", "w": 0, "aw": 16, "b": 2, "x": -1, "sc": 1, "d": 0, "hd": 0}],
    "globundef": [{"t": "l", "nm": "_gund", "add": 0}],       # declared GLOBAL, never defined
    "fwdequ": [{"t": "l", "nm": "FWDQ", "add": 0}, {"t": "l", "nm": "FWDR", "add": 0}, {"t": "l", "nm": "FWDL", "add": 0}],
    "undef": [{"t": "l", "nm": "nowhere", "add": 0}],
    "far_ii": [{"t": "txt", "s": "8:27"}], "far_kw": [{"t": "txt", "s": "DWORD 2*8:0x0000001b"}], "far_es": [{"t": "txt", "s": '"":5'}],
    "far_ec": [{"t": "txt", "s": "'':5"}], "far_bs": [{"t": "txt", "s": '" ":known'}], "far_il": [{"t": "txt", "s": "8:known"}],
    "far_li": [{"t": "txt", "s": "known:8"}], "far_ri": [{"t": "txt", "s": "AX:8"}], "far_noff": [{"t": "txt", "s": "FAR 8:"}],
    # far pointers that are judged (statement kind `far`): numeric offset, offset = a defined label, offset = an undefined name
    "farj_num": [{"t": "far", "seg": 8, "off": 27, "offnm": "", "kw": ""}, {"t": "far", "seg": 16, "off": 0x12345, "offnm": "", "kw": "DWORD"}],
    "farj_lab": [{"t": "far", "seg": 8, "off": 0, "offnm": "known", "kw": ""}, {"t": "far", "seg": 16, "off": 0, "offnm": "after", "kw": "DWORD"}],
    "farj_undef": [{"t": "far", "seg": 8, "off": 0, "offnm": "nowhere", "kw": ""}, {"t": "far", "seg": 16, "off": 0, "offnm": "nowhere_either", "kw": "DWORD"}],
    "str": [{"t": "txt", "s": '"ab"'}],
    "chr": [{"t": "txt", "s": "'a'"}],
}


def shapes(ctx, part):
    cfg = 'CONSTANTS Part = "%s"\nINIT Init\nNEXT Next\nINVARIANT Emit\nCHECK_DEADLOCK FALSE\n' % part
    out, st = ctx.tlc("Gen_Matrix", cfg_text=cfg, workers=2, name="gen:matrix:" + part)
    cs = [c["shape"] for c in ctx.printed(out, "CASE")]
    cs.sort(key=lambda c: json.dumps(c))
    return cs


def statement(mn, shape, variant=0):
    ops = [json.loads(json.dumps(OPER[k][(variant + 3 * j) % len(OPER[k])])) for j, k in enumerate(shape)]
    if len(ops) == 1 and ops[0]["t"] == "far":
        o = ops[0]
        if mn == "JMP":
            return {"k": "far", "mn": mn, "seg": o["seg"], "off": o["off"], "offnm": o["offnm"], "kw": o["kw"], "sty": "h"}
        ops = [{"t": "txt", "s": "%s%d:%s" % ((o["kw"] + " ") if o["kw"] else "", o["seg"], o["offnm"] or ("0x%x" % o["off"]))}]
    if mn in BRANCH and len(ops) == 1 and ops[0]["t"] in ("l", "i"):
        o = ops[0]
        tgt = {"t": "l", "nm": o["nm"], "add": 0} if o["t"] == "l" else {"t": "n", "v": o["v"], "sty": o.get("sty", "d")}
        return {"k": "br", "mn": mn, "tgt": tgt}
    return {"k": "ins", "mn": mn, "ops": ops}


def program(st, bits=16):
    pre = [{"k": "org", "v": 0x7c00}] + ([{"k": "bits", "v": 32}] if bits == 32 else [])
    tail = []
    if "FWD" in json.dumps(st):      # EQU names used BEFORE their definition, whose bodies are not constants
        tail = [{"k": "equ", "nm": "FWDQ", "e": {"o": "+", "a": {"o": "id", "nm": "nosuchsymbol"}, "b": {"o": "n", "v": 2}}},
                {"k": "equ", "nm": "FWDR", "e": {"o": "id", "nm": "BX"}},
                {"k": "equ", "nm": "FWDL", "e": {"o": "-", "a": {"o": "id", "nm": "after"}, "b": {"o": "id", "nm": "known"}}}]
    if "_gund" in json.dumps(st):
        pre = pre + [{"k": "global", "names": ["known", "_gund"]}]
    return pre + [{"k": "label", "nm": "known"}, {"k": "ins", "mn": "NOP", "ops": []}, st,
                  {"k": "label", "nm": "after"}, {"k": "data", "mn": "DW", "items": [{"t": "e", "e": {"o": "id", "nm": "after"}}]}] + tail


def mnemonics():
    return [m for m in insflow.grammar_opcodes() if m not in PSEUDO]
