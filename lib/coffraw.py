# Raw COFF reader: extracts fields from the bytes without interpreting or repairing anything.
import hashlib
import struct


def read(data):
    n = len(data)

    def u16(o):
        return struct.unpack_from("<H", data, o)[0] if o + 2 <= n else -1

    def u32(o):
        v = struct.unpack_from("<I", data, o)[0] if o + 4 <= n else -1
        return v if v < 2 ** 31 else -2       # beyond int32: certainly outside the file

    def strip(b):
        b = bytes(b)
        i = b.find(b"\0")
        return list(b if i < 0 else b[:i])
    obj = {"flen": n, "machine": u16(0), "nsec": u16(2), "symptr": u32(8), "nsyms": u32(12), "opthdr": u16(16)}
    secs = []
    for k in range(min(max(obj["nsec"], 0), 8)):
        o = 20 + 40 * k
        secs.append({"name": strip(data[o:o + 8]), "size": u32(o + 16), "ptr": u32(o + 20), "relptr": u32(o + 24), "lnptr": u32(o + 28),
                     "nrel": u16(o + 32), "nln": u16(o + 34)})
    obj["secs"] = secs
    recs = []
    sp, ns = obj["symptr"], obj["nsyms"]
    pending = 0
    if 0 <= sp <= n and 0 <= ns <= 5000:
        for k in range(ns):
            o = sp + 18 * k
            if o + 18 > n:
                break
            raw = data[o:o + 18]
            if pending > 0:
                recs.append({"aux": True, "short": [], "off": 0, "value": 0, "sec": 0, "class": 0, "naux": 0, "raw": list(raw)})
                pending -= 1
                continue
            zero, off = struct.unpack_from("<II", raw, 0)
            val = struct.unpack_from("<i", raw, 8)[0]
            sec = struct.unpack_from("<h", raw, 12)[0]
            cls, naux = raw[16], raw[17]
            long = zero == 0 and off != 0
            recs.append({"aux": False, "short": [] if long else strip(raw[0:8]), "off": (off if off < 2 ** 31 else -2) if long else 0,
                         "value": val, "sec": sec, "class": cls, "naux": naux, "raw": []})
            pending = naux
    obj["recs"] = recs
    so = sp + 18 * ns if (sp >= 0 and ns >= 0) else n
    obj["strlen"] = u32(so) if 0 <= so <= n - 4 else -1
    obj["strtab"] = list(data[so + 4:]) if 0 <= so <= n - 4 else []
    t = secs[0] if secs else None
    if t and 0 <= t["ptr"] <= n and 0 <= t["size"] and t["ptr"] + t["size"] <= n:
        obj["textsha"] = hashlib.sha256(data[t["ptr"]:t["ptr"] + t["size"]]).hexdigest()[:16]
    else:
        obj["textsha"] = "unreadable"
    return obj
