# Transformations of abstract programs used by the relational checks.
import copy
import json
import random


def gen(ctx, part, workers=2):
    cfg = 'CONSTANTS Part = "%s"\nINIT Init\nNEXT Next\nINVARIANT Emit\nCHECK_DEADLOCK FALSE\n' % part
    out, st = ctx.tlc("Gen_Variants", cfg_text=cfg, workers=workers, name="gen:variants:" + part, timeout=600)
    cs = ctx.printed(out, "CASE")
    cs.sort(key=lambda c: json.dumps(c, sort_keys=True))
    return cs


# ---------------------------------------------------------------- names
def names_of(stmts):
    seen = []

    def add(n):
        if n and n != "$" and n not in seen:
            seen.append(n)

    def ex(e):
        if e["o"] == "id":
            add(e["nm"])
        for f in ("a", "b"):
            if f in e:
                ex(e[f])
    for s in stmts:
        k = s["k"]
        if k in ("label", "equ"):
            add(s["nm"])
        if k == "equ":
            ex(s["e"])
        if k == "br" and s["tgt"]["t"] == "l":
            add(s["tgt"]["nm"])
        if k == "ins":
            for o in s["ops"]:
                if o["t"] == "l":
                    add(o["nm"])
                if o["t"] == "m" and o.get("lab"):
                    add(o["lab"])
        if k == "data":
            for it in s["items"]:
                if it["t"] == "e":
                    ex(it["e"])
        if k == "resb":
            ex(s["e"])
        if k in ("global", "extern"):
            for n in s["names"]:
                add(n)
    return seen


def rename(stmts, m):
    st = copy.deepcopy(stmts)

    def r(n):
        return m.get(n, n)

    def ex(e):
        if e["o"] == "id":
            e["nm"] = r(e["nm"])
        for f in ("a", "b"):
            if f in e:
                ex(e[f])
    for s in st:
        k = s["k"]
        if k in ("label", "equ"):
            s["nm"] = r(s["nm"])
        if k == "equ":
            ex(s["e"])
        if k == "br" and s["tgt"]["t"] == "l":
            s["tgt"]["nm"] = r(s["tgt"]["nm"])
        if k == "ins":
            for o in s["ops"]:
                if o["t"] == "l":
                    o["nm"] = r(o["nm"])
                if o["t"] == "m" and o.get("lab"):
                    o["lab"] = r(o["lab"])
        if k == "data":
            for it in s["items"]:
                if it["t"] == "e":
                    ex(it["e"])
        if k == "resb":
            ex(s["e"])
        if k in ("global", "extern"):
            s["names"] = [r(n) for n in s["names"]]
    return st


def renaming_map(stmts, cell):
    ns = names_of(stmts)
    fam = cell["fam"]
    if len(ns) > len(fam):
        return None
    return {n: fam[(i + cell["rot"]) % len(fam)] for i, n in enumerate(ns)}


# ---------------------------------------------------------------- EQU abstraction (C11)
def literal_sites(stmts):
    """(statement index, path) of numeric literals that may be replaced by an EQU name."""
    sites = []
    for i, s in enumerate(stmts):
        k = s["k"]
        if k == "ins":
            for j, o in enumerate(s["ops"]):
                if o["t"] == "i":
                    sites.append((i, ("op", j)))
                if o["t"] == "m" and o.get("hd", 1 if o.get("d", 0) else 0) and not o.get("lab") and (o.get("b", -1) != -1 or o.get("x", -1) != -1) and o.get("d", 0) > 0:
                    sites.append((i, ("disp", j)))
        if k == "data":
            for j, it in enumerate(s["items"]):
                if it["t"] == "e" and it["e"]["o"] == "n":
                    sites.append((i, ("item", j)))
        if k == "resb" and s["e"]["o"] == "n":
            sites.append((i, ("resb", 0)))
    return sites


def abstract_equ(stmts, cell, insert_at):
    """Replace the chosen literal sites by EQU names defined (chains of cell.depth) at position insert_at."""
    st = copy.deepcopy(stmts)
    sites = literal_sites(st)
    defs = []
    used = 0
    for n, k in enumerate(sorted(cell["sites"])):
        if k >= len(sites):
            continue
        i, (kind, j) = sites[k]
        s = st[i]
        if kind == "op":
            v = s["ops"][j]["v"]
            sty = s["ops"][j].get("sty", "d")
            s["ops"][j] = {"t": "l", "nm": "Q%d" % n, "add": 0}
        elif kind == "disp":
            v = s["ops"][j]["d"]
            sty = "d"
            s["ops"][j]["lab"] = "Q%d" % n
            s["ops"][j]["d"] = 0
            s["ops"][j]["hd"] = 0
        elif kind == "item":
            v = s["items"][j]["e"]["v"]
            sty = s["items"][j]["e"].get("sty", "d")
            s["items"][j] = {"t": "e", "e": {"o": "id", "nm": "Q%d" % n}}
        else:
            v = s["e"]["v"]
            sty = s["e"].get("sty", "d")
            s["e"] = {"o": "id", "nm": "Q%d" % n}
        lit = {"o": "n", "v": v, "sty": sty}
        if cell["style"] == "arith" and -2147483000 < v < 2147483000:
            body = {"o": "+", "a": {"o": "-", "a": lit, "b": {"o": "n", "v": 3}}, "b": {"o": "n", "v": 3}}
        elif cell["style"] == "paren":
            body = {"o": "par", "a": lit}
        else:
            body = lit
        chain = []
        d = cell["depth"]
        for lvl in range(d, 0, -1):     # innermost first: Qn_d EQU body ; ... ; Qn EQU Qn_2
            name = "Q%d" % n if lvl == 1 else "Q%d_%d" % (n, lvl)
            chain.append({"k": "equ", "nm": name, "e": body})
            body = {"o": "id", "nm": name}
        defs += chain
        used += 1
    if not used:
        return None
    return st[:insert_at] + defs + st[insert_at:]
