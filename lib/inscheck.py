# Shared body of the instruction-cell checks (C01, C02, C18): TLC-enumerated cells -> real gosk ->
# TLC trace validation with the TLA+ ISA decoder.
import json
import random

import flow
import insflow
import report
import render
from findings import Findings
from vlib import log, is_diagnosed

ASSUME = [
    "TLC evaluates the TLA+ ISA definition (spec/X86.tla, X86M.tla: opcode map, ModR/M/SIB tables of the Intel SDM) correctly; the definition is calibrated against objdump and llvm-mc by bin/selftest and its decoder/encoder round trip is model-checked (MC_X86)",
    "lib/render.py writes the abstract statement it was given (the trace spec cross-checks statement kinds/mnemonics with what gosk parsed)",
    "hooks report the bytes gosk appends per ocode; cross-checked against the output file at every end event",
    "a statement for which gosk reports an error-level or 'Error' diagnostic is outside this property (C07 judges it)",
]


def run(ctx, prop, parts_quick, parts_thorough, sample_quick=None, modes=(16, 32), batch=40, rule=""):
    ctx.build()
    rng = random.Random(ctx.seed)
    quick = ctx.tier == "quick"
    ctx.tlc("MC_X86", workers=8, name="mc:X86 round trip (encoder vs decoder, MemLen, prefix-freedom)", timeout=900)
    parts = parts_quick if quick else parts_thorough
    cells = []
    per_part = {}
    for p in parts:
        cs = insflow.gen(ctx, p)
        per_part[p] = len(cs)
        if quick and sample_quick and p in sample_quick and len(cs) > sample_quick[p]:
            rng.shuffle(cs)
            cs = cs[:sample_quick[p]]
        cells += cs
    ops = set(insflow.grammar_opcodes())
    skipped = [c for c in cells if c["mn"] not in ops]
    cells = [c for c in cells if c["mn"] in ops]
    preambles = ((),)
    if prop == "C18":     # the directive every haribote source starts with must not change which form is chosen
        preambles = ((), ({"k": "cfg", "mn": "INSTRSET", "s": '"i486p"'},), ({"k": "cfg", "mn": "INSTRSET", "s": '"i386"'}, {"k": "cfg", "mn": "OPTIMIZE", "s": "1"}))
    R = insflow.run_cells(ctx, {b: cells for b in modes}, batch=batch, preambles=preambles)
    if prop == "C02":
        # the same effective addresses with the displacement written as an EQU constant; >300 EQU references in one run
        memcells = [c for c in cells if any(o["t"] == "m" and o.get("hd") and o.get("d", 0) > 0 and (o.get("b", -1) != -1 or o.get("x", -1) != -1 or True) for o in c["ops"])]
        memcells.sort(key=lambda c: json.dumps(c, sort_keys=True))
        memcells = [c for c in memcells if not any(o["t"] == "m" and (o.get("x", -1) != -1 or (o.get("aw", 0) == 0 and o.get("d", 0) > 65535)) for o in c["ops"])]     # base-only / absolute shapes
        memcells = memcells[::max(1, len(memcells) // 330)]          # a fixed subset (not seed dependent)
        for bits in modes:
            st = [{"k": "org", "v": 0x7c00}] + ([{"k": "bits", "v": 32}] if bits == 32 else [])
            sel = memcells[:330]
            vals = sorted({o["d"] for c in sel for o in c["ops"] if o["t"] == "m"})
            for v in vals:
                st.append({"k": "equ", "nm": "DQ%d" % vals.index(v), "e": {"o": "n", "v": v, "sty": "h"}})
            for j, c in enumerate(sel):
                c2 = json.loads(json.dumps(c))
                for o in c2["ops"]:
                    if o["t"] == "m" and o.get("d", 0) in vals and o.get("hd"):
                        o["lab"] = "DQ%d" % vals.index(o["d"])
                        o["d"] = 0
                        o["hd"] = 0
                st.append(c2)
                if j % 10 == 9:
                    st.append({"k": "label", "nm": "e%d" % j})
            cid = R.add(st)
        jobs = [{"id": c["id"], "src": c["src"]} for c in R.cases if c["id"] not in R.results]
        R.results.update(ctx.run_jobs(jobs))
    ncorpus = 0
    if prop in ("C01", "C02"):
        # real programs (the haribote-OS sources of the repository's own tests, as written): every instruction in them is judged too
        import corpus
        ncorpus = len(corpus.add(R, tags=("C12", prop)))
        jobs = [dict({"id": c["id"], "src": c["src"]}, **c["job"]) for c in R.cases if c["id"] not in R.results]
        R.results.update(ctx.run_jobs(jobs))
    ver = ctx.validate("Trace_Asm", R.traces())
    F = Findings()
    viol, known, other = flow.classify(ctx, ver, R, F, prop)
    judged = sum(i["judged"] for i in ver["info"])
    unjudged = sum(i["unjudged"] for i in ver["info"])
    dgs = sum(i["dg"] for i in ver["info"])
    statuses = {}
    for c in R.cases:
        s = R.end(c["id"]).get("status")
        statuses[s] = statuses.get(s, 0) + 1
    explained = len(known)
    cov = {
        "states": sum(s["distinct"] for s in ctx.tlc_stats), "transitions": sum(s["generated"] for s in ctx.tlc_stats),
        "traces_validated_against_impl": len(R.cases), "trace_events": ver["events"],
        "cells": len(cells) * len(modes), "cells_per_part": per_part, "corpus_programs": ncorpus, "modes": list(modes),
        "mnemonics_not_in_grammar_skipped": sorted({c["mn"] for c in skipped}),
        "statements_judged_by_reference": judged, "statements_outside_isa_model": unjudged,
        "statements_diagnosed_by_gosk": dgs, "program_status": statuses,
        "statements_accepted_by_reference": judged - explained - len(viol) - len([r for r in other if r.get("at") == "cg"]),
        "statements_explained_by_known_findings": explained,
        "evaluations": len(cells) * len(modes), "distinct_nontrivial": max(0, judged - dgs),
        "rule": rule + " Cells are enumerated by TLC from spec/Gen_X86.tla (parts %s)%s, in BITS %s, batched %d per program with a label after every cell; "
                       "non-trivial = statement assembled without diagnostic and judged by the ISA model." % (
                           ",".join(parts), " (quick tier: seeded sample of the large parts)" if quick and sample_quick else "", "/".join(map(str, modes)), batch),
        "samples": [render.stmt(c).strip() for c in (cells[:3] + cells[len(cells) // 2:len(cells) // 2 + 3] + cells[-3:])],
        "model_checking": "MC_X86: for every addressing shape x boundary displacement x mode, every encoding produced by an independently written encoder decodes (X86.tla) to the source operand, MemLen is the length of the shortest one and the encodings are prefix-free",
        "tlc_runs": ctx.tlc_stats[:20], "exhaustive": not (quick and bool(sample_quick)),
    }
    return report.finish(ctx, prop, viol, known, other, R, cov, ASSUME)
