# Real-world sources (/verif/corpus/*.nas: the haribote-OS programs of the repository's own tests plus a few written for
# this purpose) as cases of the trace flow.  Each file is assembled twice: as written (comments, layout, Japanese text
# and all) with the statements nasparse.py read from it, and re-rendered from those statements; relation "eq" requires
# identical images, which checks the parser and the renderer against each other through gosk.
import glob
import os

import re

import nasparse
import render
from vlib import VERIF


def load():
    out = []
    for f in sorted(glob.glob(os.path.join(VERIF, "corpus", "*.nas"))):
        src = open(f, encoding="utf-8").read()
        # a constant reservation beyond 64 KiB (the 1.4 MB tail of a floppy image) is shortened to its residue modulo 64 KiB:
        # the hooks would hand TLC megabytes of zeros per program (the worker caps a chunk at 256 KiB)
        src = re.sub(r"(RESB\s+)(\d{6,})", lambda m: m.group(1) + str(int(m.group(2)) % 65536), src)
        out.append((os.path.basename(f), src, nasparse.parse(src)))
    return out


def add(R, tags=("C12",)):
    """Adds every corpus program to runner R.  Returns [(name, id_original, id_rendered, nstmts, nraw)]."""
    res = []
    for name, src, st in load():
        a = R.add(st, src=src)
        b = R.add(st)
        R.rel("eq", list(tags), a=a, b=b)
        res.append((name, a, b, len(st), sum(1 for s in st if s["k"] == "raw")))
    return res
