# Common flow: abstract cases -> source -> real gosk (worker) -> traces -> TLC verdicts.
import json
import os
import random

from vlib import Machinery, is_diagnosed, log, VERIF
import render


def int32(v):
    v &= 0xFFFFFFFF
    return v - (1 << 32) if v >= (1 << 31) else v


def batch_cells(cells, n, org=None, bits=None, prefix=(), label_each=True, tail=True):
    """Group cells (each a list of abstract statements, or one statement) into programs:
       [ORG] [BITS] prefix...  L<k>: cell ...  Lend:      Returns list of stmts lists + cell index map."""
    progs = []
    for i in range(0, len(cells), n):
        stmts = []
        if org is not None:
            stmts.append({"k": "org", "v": org})
        if bits is not None:
            stmts.append({"k": "bits", "v": bits})
        stmts += list(prefix)
        where = []
        for j, c in enumerate(cells[i:i + n]):
            if label_each:
                stmts.append({"k": "label", "nm": "cl%d" % j})
            cs = c if isinstance(c, list) else [c]
            where.append((len(stmts), len(cs)))
            stmts += cs
        if tail:
            stmts.append({"k": "label", "nm": "clend"})
        progs.append((stmts, where))
    return progs


class Runner:
    """Collects programs (abstract), executes them on the real code, builds trace event lists."""

    def __init__(self, ctx):
        self.ctx = ctx
        self.cases = []     # dict(id, stmts, src, job extras)
        self.rels = []      # relation events, appended after the cases they mention
        self.results = {}
        self.preamble = []   # events put at the start of every trace group (e.g. C10's reference results)
        self._next = 1

    def add(self, stmts, src=None, **job):
        cid = self._next
        self._next += 1
        if src is None:
            src = render.program(stmts)
        self.cases.append({"id": cid, "stmts": stmts, "src": src, "job": job})
        return cid

    def rel(self, kind, tags, **kw):
        self.rels.append(dict(e="rel", kind=kind, tags=list(tags), **kw))

    def run(self, nproc=None, sequential=False, per_job_timeout=30.0):
        jobs, fresh = [], []
        for c in self.cases:
            j = {"id": c["id"], "src": c["src"]}
            j.update(c["job"])
            if j.pop("fresh", False):      # this case gets a worker process of its own (nothing assembled before it in that process)
                fresh.append(j)
            else:
                jobs.append(j)
        self.results = self.ctx.run_jobs(jobs, nproc=nproc, sequential=sequential, per_job_timeout=per_job_timeout)
        for i in range(0, len(fresh), 16):      # 16 one-job processes at a time
            self.results.update(self.ctx.run_jobs(fresh[i:i + 16], per_job_timeout=per_job_timeout, chunks=[[j] for j in fresh[i:i + 16]]))
        return self.results

    def end(self, cid):
        return self.results[cid][-1]

    def traces(self):
        """One event list per *group*: related cases stay in the same list followed by their rel events."""
        # union-find over relations so that related cases end up in one trace file
        parent = {}

        def find(x):
            while parent.get(x, x) != x:
                parent[x] = parent.get(parent[x], parent[x])
                x = parent[x]
            return x
        for r in self.rels:
            ids = [r[k] for k in ("a", "b", "ab") if k in r]
            for x in ids[1:]:
                parent[find(x)] = find(ids[0])
        groups = {}
        order = []
        for c in self.cases:
            g = find(c["id"])
            if g not in groups:
                groups[g] = []
                order.append(g)
            groups[g].append(c)
        relsof = {}
        for r in self.rels:
            relsof.setdefault(find(r["a"]), []).append(r)
        out = []
        for g in order:
            evs = list(self.preamble)
            for c in groups[g]:
                evs += self.case_events(c)
            evs += relsof.get(g, [])
            evs.append({"e": "flush"})      # results of finished cases are only needed by their own rel events
            out.append(evs)
        return out

    def case_events(self, c):
        evs = self.results[c["id"]]
        end = dict(evs[-1])
        end["clean"] = not is_diagnosed(end)
        end.pop("hex", None)
        end.pop("diagfirst", None)
        end.pop("pe", None)
        end.pop("stdout", None)
        end.pop("panicat", None)
        end.pop("sym", None)
        for k, dv in (("sha", ""), ("outlen", -1), ("nstmt", -1), ("loc", 0), ("fmt", ""), ("status", "ok")):
            end.setdefault(k, dv)
        nt = bool(c["job"].get("notrace"))
        begin = {"e": "begin", "id": c["id"], "nt": nt, "stmts": [] if nt else [render.norm_stmt(s) for s in c["stmts"]]}
        return [begin] + evs[:-1] + [end]


def classify(ctx, verdicts, runner, findings, prop):
    """Split TLC rejections into violations of `prop`, rejections of other properties,
    machinery problems (SYNC/HOOK) and known findings.  Returns (violations, known, other)."""
    byid = {c["id"]: c for c in runner.cases}
    viol, known, other = [], [], []
    for r in verdicts["rej"]:
        tags = r.get("tags", [])
        if "SYNC" in tags or "HOOK" in tags:
            # gosk parsed a different program than the one that was rendered (SYNC), or the bytes its code generator produced
            # are not what it wrote to the file (HOOK).  On the unchanged tree neither occurs (the renderer and the hooks are
            # exercised by every run); on a modified tree both are wrong behaviour of gosk, so they are reported as
            # violations of the property being checked, not as machinery failures.
            r["tags"] = list(tags) + [prop]
            tags = r["tags"]
        c = byid.get(r["id"])
        kf = findings.match(r, c) if findings else None
        if kf:
            known.append((kf, r))
        elif prop in tags:
            viol.append(r)
        else:
            other.append(r)
    return viol, known, other
