# Known findings (genuine defects of the pinned tree that are recorded, not repaired).
# /verif/known_findings.jsonl is committed and never written at run time.
#   {"id": "D_x", "status": "open"|"fixed", "properties": [...], "where": ..., "what": ..., "witness": ...,
#    "table": "findings/D_x.jsonl" (optional: exact inputs -> exact wrong observation)}
# A rejection is explained by a finding when
#   (rule form)  the trace spec itself recognised gosk's exact wrong step and named the deviation (r["dev"]), or
#   (table form) the finding's table lists this exact input with this exact observation.
import hashlib
import json
import os

from vlib import VERIF
import render


def case_key(r, case):
    """Identity of the failing input: rendered statement text + mode + kind of disagreement."""
    txt = ""
    if case is not None and r.get("i", 0) > 0 and r["i"] <= len(case["stmts"]):
        txt = render.stmt(case["stmts"][r["i"] - 1]).strip()
    return "%s|%s|%s|%s" % (txt, r.get("bits", 0), r.get("at", ""), r.get("why", ""))


def obs_key(r):
    obs = r.get("obs")
    if r.get("at") == "cg" and isinstance(obs, list) and all(isinstance(x, int) for x in obs):
        # the order of the operand-size / address-size prefixes carries no meaning: a listed wrong encoding stays the
        # same finding when only 66h and 67h change places
        n = 0
        while n < len(obs) and obs[n] in (0x66, 0x67):
            n += 1
        obs = sorted(obs[:n]) + obs[n:]
    return json.dumps([obs, r.get("psz")], separators=(",", ":"))


def entry_hash(r, case):
    return hashlib.sha1((case_key(r, case) + "\x00" + obs_key(r)).encode()).hexdigest()[:14]


class Findings:
    """known_findings.jsonl: one JSON object per open finding (plus 'fixed: ...' lines).
    Table-form findings list the exact failing inputs with the exact wrong observation as hashes
    in findings/<id>.tbl (sha1 of 'statement text|bits|where|why' + observed bytes / pass-1 size)."""

    def __init__(self, path=None):
        self.path = path or os.path.join(VERIF, "known_findings.jsonl")
        self.items = []
        self.tables = {}
        if os.path.exists(self.path):
            for line in open(self.path):
                line = line.strip()
                if not line or line.startswith("#") or line.startswith("fixed:"):
                    continue
                f = json.loads(line)
                self.items.append(f)
                if f.get("table") and f.get("status") == "open":
                    tp = os.path.join(VERIF, f["table"])
                    if os.path.exists(tp):
                        self.tables[f["id"]] = set(open(tp).read().split())
        self.open = {f["id"]: f for f in self.items if f.get("status") == "open"}

    def match(self, r, case):
        d = r.get("dev", "")
        if d and d in self.open:
            return self.open[d]
        if self.tables:
            h = entry_hash(r, case)
            for fid, t in self.tables.items():
                if h in t:
                    return self.open[fid]
        return None
