# C02 - memory operands encode the effective address that was written.
import inscheck


def run(ctx):
    return inscheck.run(ctx, "C02", ["mem16", "mem32a", "mem32b"], ["mem16", "mem32a", "mem32b"],
                        sample_quick={"mem32b": 6000}, batch=40,
                        rule="Universe of C02: all 16-bit shapes (BX/BP x SI/DI, single base, absolute) and 32-bit shapes (base in 8 registers or none) x (index in 7 registers or none) x scale x boundary displacements x 15 carrier instructions.")
