# C04 - relative branches land exactly on their targets.
import json
import random

import flow
import report
import render
from findings import Findings
from vlib import is_diagnosed

ASSUME = [
    "TLC evaluates the TLA+ ISA decoder (X86.tla) and BranchDenotes (X86M.tla) correctly",
    "the real address of a statement is origin + sum of the byte lengths the hooks logged before it; the hook bytes are cross-checked against the output file",
    "a run with an error-level / 'Error' diagnostic or non-zero exit is outside C04",
]


def gen(ctx, dists, orgs, mns=()):
    cfg = "CONSTANTS Dists = {%s}\n Orgs = {%s}\n Mns = {%s}\nINIT Init\nNEXT Next\nINVARIANT Emit\nCHECK_DEADLOCK FALSE\n" % (
        ",".join(map(str, dists)), ",".join(map(str, orgs)), ",".join('"%s"' % m for m in mns))
    out, st = ctx.tlc("Gen_Branch", cfg_text=cfg, workers=6, name="gen:branch", timeout=1200)
    cs = ctx.printed(out, "CASE")
    cs.sort(key=lambda c: json.dumps(c, sort_keys=True))
    return cs


def program(c):
    st = []
    if c.get("org"):
        st.append({"k": "org", "v": c["org"]})
    if c["bits"] == 32:
        st.append({"k": "bits", "v": 32})
    if "seg" in c:
        st.append({"k": "far", "mn": "JMP", "seg": c["seg"], "off": c["off"], "kw": c["kw"]})
        st.append({"k": "label", "nm": "aft"})
        return st
    st.append({"k": "ins", "mn": "NOP", "ops": []})
    fill = {"k": "resb", "e": {"o": "n", "v": c["d"]}}
    if c["tk"] == "l":
        tgt = {"t": "l", "nm": "tgt", "add": 0}
    else:
        tgt = None
    br = {"k": "br", "mn": c["mn"], "tgt": tgt}
    if c["dir"] == "f":
        body = [br] + ([{"k": "label", "nm": "aft"}] if c["after"] else []) + [fill, {"k": "label", "nm": "tgt"}, {"k": "ins", "mn": "HLT", "ops": []}]
    else:
        body = [{"k": "label", "nm": "tgt"}, fill, br] + ([{"k": "label", "nm": "aft"}, {"k": "ins", "mn": "HLT", "ops": []}] if c["after"] else [])
    if tgt is None:
        # numeric target: the absolute address the label WOULD have under the reference layout is not known
        # before assembling, so the numeric variant targets a fixed address near the origin: org + 1 (the byte after NOP)
        # for backward cells and org + 1 + 200 + d for forward cells.
        a = c["org"] + 1 + (0 if c["dir"] == "b" else 200 + c["d"])
        br["tgt"] = {"t": "n", "v": a, "sty": "h"}
    st += body
    return st


def run(ctx):
    ctx.build()
    quick = ctx.tier == "quick"
    if quick:
        dists = [0, 1, 2, 60] + list(range(122, 134)) + [32760, 32766, 32770]
        orgs = [0, 0x7c00]
    else:
        dists = list(range(0, 141)) + list(range(32755, 32776))
        orgs = [0, 0x7c00, 0xfff0]
    import c03
    mcst = c03.mc(ctx, 4 if quick else 5)
    ctx.apalache("BranchLemma", "Lemma")
    cells = gen(ctx, dists, orgs)
    R = flow.Runner(ctx)
    for c in cells:
        R.add(program(c))
    # branch targets given by EQU names whose bodies mention `$` (the address of the EQU statement), alone or together with a
    # name that is only defined further down; used from other addresses, before and after
    nequ = 0
    def brs(mn, nm):
        return {"k": "br", "mn": mn, "tgt": {"t": "l", "nm": nm, "add": 0}}
    for bits in (16, 32):
        for org in (0, 0x7c00):
            for fwd in (0, 1):
                for gap in (0, 5, 140):
                    for mn in ("JMP", "CALL", "JE", "JNC"):
                        st = [{"k": "org", "v": org}] + ([{"k": "bits", "v": 32}] if bits == 32 else []) + [{"k": "ins", "mn": "NOP", "ops": []}]
                        skip = {"k": "equ", "nm": "SKIP", "e": {"o": "n", "v": 3}}
                        if not fwd:
                            st.append(skip)
                        st.append({"k": "equ", "nm": "resume", "e": {"o": "+", "a": {"o": "$"}, "b": {"o": "id", "nm": "SKIP"}}})
                        st.append({"k": "equ", "nm": "here0", "e": {"o": "$"}})
                        st.append({"k": "data", "mn": "DB", "items": [{"t": "e", "e": {"o": "n", "v": v}} for v in (0x90, 0x90, 0x90, 0xF4)]})
                        if gap:
                            st.append({"k": "resb", "e": {"o": "n", "v": gap}})
                        if fwd:
                            st.append(skip)
                        st += [brs(mn, "resume"), brs("JMP", "here0")]       # uses from other addresses, after both definitions
                        st += [brs(mn, "resume"), {"k": "label", "nm": "aft"}, {"k": "ins", "mn": "HLT", "ops": []}]
                        R.add(st)
                        nequ += 1
    # branches across REAL statements (instructions of every size class, data, ALIGNB) instead of RESB filler: seeded random programs
    # of spec/Gen_Prog.tla; every label-target branch in them is judged against the real address of its target
    import progs
    nrand = 0
    for bits in (16, 32):
        for i, c in enumerate(progs.gen(ctx, 120 if quick else 1500, length=14 if quick else 20, nl=4, bits=bits, seed=ctx.seed + 40)):
            R.add(progs.complete(c, org=[0x7c00, None, 0xc200][i % 3], bits=bits))
            nrand += 1
    import corpus
    ncorpus = len(corpus.add(R, tags=("C12", "C04")))      # real programs as written (/verif/corpus)
    R.run()
    ver = ctx.validate("Trace_Asm", R.traces(), nproc=12)
    F = Findings()
    viol, known, other = flow.classify(ctx, ver, R, F, "C04")
    ok = sum(1 for c in R.cases if not is_diagnosed(R.end(c["id"])))
    rejected_cases = {r["id"] for r in ver["rej"]}
    cov = {
        "states": sum(s["distinct"] for s in ctx.tlc_stats), "transitions": sum(s["generated"] for s in ctx.tlc_stats),
        "traces_validated_against_impl": len(R.cases), "corpus_programs": ncorpus, "equ_dollar_target_programs": nequ, "trace_events": ver["events"],
        "programs": len(R.cases), "programs_without_diagnostic": ok,
        "programs_accepted_by_reference": ok - len([i for i in rejected_cases]),
        "programs_explained_by_known_findings": len({r["id"] for _, r in known}),
        "evaluations": len(R.cases), "distinct_nontrivial": ok,
        "rule": "TLC enumerates (32 jump mnemonics incl. CALL) x distances %s x forward/backward x with/without a label after the branch x label/numeric target x ORG %s x BITS 16/32, plus far JMP seg:off boundary values; "
                "each cell is one program (NOP; branch; RESB d; target); plus %d seeded random programs (Gen_Prog.tla) whose branches cross real statements. non-trivial = assembled without diagnostic" % (
                    "0..140 and 32755..32775" if not quick else str(dists), [hex(o) for o in orgs], nrand),
        "samples": [R.cases[i]["src"] for i in (0, len(R.cases) // 3, len(R.cases) - 1)],
        "model_checking": "MC_Asm: Inv_C04 (every branch chunk decodes to the named condition and lands on the real address of its target) holds in all %d states of all programs of length <= %d" % (mcst["distinct"], 4 if quick else 5),
        "symbolic_lemma": "BranchLemma.tla (Apalache, all 2^16 x 2^16 address pairs): a rel16 displacement holding the low 16 bits of target-(address+length) lands on the target modulo 2^16; a rel8 displacement lands whenever the distance fits a signed byte",
        "tlc_runs": ctx.tlc_stats[:8], "exhaustive": True,
    }
    return report.finish(ctx, "C04", viol, known, other, R, cov, ASSUME)
