# C07 - nothing is dropped or mis-assembled silently.
import random
import zlib

import flow
import matrix
import report
import render
from findings import Findings
from vlib import is_diagnosed

ASSUME = ["'diagnostic' is read generously: an error/alert level log line, a line starting with 'Error', a 'GOSK :' message, a panic or a non-zero exit",
          "a statement the grammar accepted as an instruction that contributes zero bytes without a diagnostic is always a violation; 'emitted some other instruction' is judged for the mnemonics of the TLA+ ISA model only (others are counted as unjudged)",
          "TLC evaluates the reference semantics; an operand naming an undefined symbol must be diagnosed"]

COMMON = {"MOV", "ADD", "SUB", "CMP", "AND", "OR", "XOR", "PUSH", "POP", "IN", "OUT", "IMUL", "SHL", "SHR", "SAR", "NOT", "INT", "LGDT", "CALL", "JMP", "JE", "JNE",
          "INC", "DEC", "ADC", "SBB", "NEG", "MUL", "DIV", "TEST", "XCHG", "LEA", "RET"}
ALSO = {"C01", "C02", "C05"}      # in a silent run these are, by C07's own statement, C07 violations too


def run(ctx):
    ctx.build()
    quick = ctx.tier == "quick"
    rng = random.Random(ctx.seed)
    mns = matrix.mnemonics()
    sh = {p: matrix.shapes(ctx, p) for p in ("n0", "n1", "n2", "n3")}
    R = flow.Runner(ctx)
    cells = []
    for mn in mns:
        for p in ("n0", "n1"):
            for s in sh[p]:
                cells.append((mn, s, 0))
        pool = sh["n2"] + sh["n3"]
        if quick:
            core = []
            if mn in COMMON:      # every operand kind in each position next to a plain register / immediate
                kinds = sorted({k for s_ in sh["n1"] for k in s_})
                core = [[k, "r16"] for k in kinds] + [["r16", k] for k in kinds] + [["r8", k] for k in kinds] + [[k, "imm_s"] for k in kinds]
            pool = core + rng.sample(pool, 10)
        for s in pool:
            cells.append((mn, s, zlib.crc32((mn + "|" + ",".join(s)).encode()) % 6))    # operand variant: a function of the cell, so quick cells are a subset of thorough
    for mn in ("JMP", "CALL"):      # far pointers: numeric offset, label offset, undefined name as offset (both keyword forms)
        for kind in ("farj_num", "farj_lab", "farj_undef"):
            for v in (0, 1):
                cells.append((mn, [kind], v))
    for mn, s, v in cells:
        R.add(matrix.program(matrix.statement(mn, s, v)))
    if not quick:
        for ci, (mn, s, v) in enumerate(cells):       # 32-bit mode: all 0/1-operand cells and every 7th of the others (a fixed subset)
            if len(s) <= 1 or ci % 7 == 0:
                R.add(matrix.program(matrix.statement(mn, s, v), bits=32))
    R.run(per_job_timeout=30)
    ver = ctx.validate("Trace_Asm", R.traces(), nproc=12)
    F = Findings()
    # widen: C01/C02/C05 rejections of the matrix statement itself count for C07
    for r in ver["rej"]:
        if "C07" not in r.get("tags", []) and ALSO & set(r.get("tags", [])) and r.get("i", 0) >= 4:
            r["tags"] = list(r["tags"]) + ["C07"]
    viol, known, other = flow.classify(ctx, ver, R, F, "C07")
    st = {}
    for c in R.cases:
        e = R.end(c["id"])
        k = e.get("status") if e.get("status") != "ok" else ("diagnosed" if is_diagnosed(e) else "silent")
        st[k] = st.get(k, 0) + 1
    cov = {"states": sum(s["distinct"] for s in ctx.tlc_stats), "transitions": sum(s["generated"] for s in ctx.tlc_stats),
           "traces_validated_against_impl": len(R.cases), "trace_events": ver["events"],
           "mnemonics": len(mns), "statements": len(R.cases), "outcomes": st,
           "statements_judged_by_isa_model": sum(i["judged"] for i in ver["info"]), "statements_unjudged": sum(i["unjudged"] for i in ver["info"]),
           "evaluations": len(R.cases), "distinct_nontrivial": st.get("silent", 0),
           "rule": "every mnemonic of the grammar's Opcode rule except data/reservation pseudo-ops (%d) x operand-list shapes enumerated by TLC (Gen_Matrix.tla: 0 operands, 16 kinds of 1 operand, %s) embedded as ORG/known:/NOP/<stmt>/after:/DW after; "
                   "non-trivial = run that ended silently (exit 0, no diagnostic), which is where C07 speaks" % (len(mns), "seeded 10 of the 256+ two/three-operand shapes per mnemonic" if quick else "all 256 two-operand shapes and 63 three-operand shapes; a fixed subset (all 0/1-operand cells, every 7th other cell) repeated in 32-bit mode"),
           "samples": [R.cases[i]["src"] for i in (5, len(R.cases) // 2, len(R.cases) - 1)], "tlc_runs": ctx.tlc_stats[:4], "exhaustive": not quick}
    return report.finish(ctx, "C07", viol, known, other, R, cov, ASSUME)
