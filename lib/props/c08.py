import coffcheck


def run(ctx):
    return coffcheck.run(ctx, "C08")
