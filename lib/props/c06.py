# C06 - constant expressions are evaluated arithmetically.
import json
import random

import flow
import report
import render
from findings import Findings
from vlib import is_diagnosed

ASSUME = ["TLC's Eval (spec/AsmSem.tla: truncating / and %, usual precedence given by the tree) is the arithmetic meant by C06; only trees whose intermediate values stay inside int32 are generated (TLC integers are Java ints)",
          "lib/render.py expr_min writes a tree with exactly the parentheses the usual precedence/associativity rules require (and a second rendering with redundant parentheses)",
          "the value is observed through DD (32 bits), MOV EAX,imm (32-bit mode), a 16-bit displacement, a RESB length and an EQU body"]

LITS = "{0,1,2,3,7,10,255,256,32767,2147483647}"
NEG = "{1,128}"


def gen(ctx, part, lits=LITS, neg=NEG):
    cfg = 'CONSTANTS Part = "%s"\n Lits = %s\n NegLits = %s\n Ops = {"+","-","*","/","%%"}\nINIT Init\nNEXT Next\nINVARIANT Emit\nCHECK_DEADLOCK FALSE\n' % (part, lits, neg)
    out, st = ctx.tlc("Gen_Expr", cfg_text=cfg, workers=8, name="gen:expr:" + part, timeout=1200)
    cs = ctx.printed(out, "CASE")
    cs.sort(key=lambda c: json.dumps(c, sort_keys=True))
    return cs


def styled(e, rng):
    e = dict(e)
    if e["o"] == "n":
        x = rng.random()
        if e["v"] >= 10 and x < 0.4:
            e["sty"] = "h"
        elif e["v"] >= 8 and x < 0.6:
            e["sty"] = "z"        # zero-padded decimal (010 is ten)
        elif e["v"] >= 10 and x < 0.7:
            e["sty"] = "H"
        return e
    e["a"] = styled(e["a"], rng)
    e["b"] = styled(e["b"], rng)
    return e


def gen_big(ctx, part):
    cfg = 'CONSTANTS Part = "%s"\nINIT Init\nNEXT Next\nINVARIANT Emit\nCHECK_DEADLOCK FALSE\n' % part
    out, st = ctx.tlc("Gen_Big", cfg_text=cfg, workers=8, name="gen:big:" + part, timeout=1200)
    cs = ctx.printed(out, "CASE")
    cs.sort(key=lambda c: json.dumps(c, sort_keys=True))
    return cs


def named_big(e, defs):
    """every literal leaf replaced by an EQU name (shared by all trees of the program)"""
    if e["o"] == "nb":
        nm = "W%x" % render.bigval(e)
        defs[nm] = dict(e)
        return {"o": "id", "nm": nm}
    if e["o"] == "n":
        nm = ("KM%d" % -e["v"]) if e["v"] < 0 else "K%d" % e["v"]
        defs[nm] = dict(e)
        return {"o": "id", "nm": nm}
    r = dict(e)
    r["a"] = named_big(e["a"], defs)
    if "b" in e:
        r["b"] = named_big(e["b"], defs)
    return r


def named(e, defs):
    if e["o"] == "n":
        nm = ("KM%d" % -e["v"]) if e["v"] < 0 else "K%d" % e["v"]
        defs[nm] = e["v"]
        return {"o": "id", "nm": nm}
    if "a" not in e:
        return dict(e)
    r = dict(e)
    r["a"] = named(e["a"], defs)
    if "b" in e:
        r["b"] = named(e["b"], defs)
    return r


def run(ctx):
    ctx.build()
    quick = ctx.tier == "quick"
    rng = random.Random(ctx.seed)
    cfg = "CONSTANTS\n  Leaves = %s\n  MaxDepth = 2\nINIT Init\nNEXT Next\nINVARIANTS Inv_RoundTrip Inv_NoErr\nCHECK_DEADLOCK FALSE\n" % ("{1}" if quick else "{1, 2}")
    _o, mcst = ctx.tlc("Expr", cfg_text=cfg, workers=8, name="mc:Expr grammar/renderer round trip", timeout=2400)
    ctx.tlc("MC_Big", workers=2, name="mc:Big (exact arithmetic vs TLC integers and externally computed constants)", timeout=600)
    trees = gen(ctx, "d1")
    d2 = gen(ctx, "d2")
    if quick:
        rng.shuffle(d2)
        d2 = d2[:2500]
    trees += d2
    if not quick:
        d3 = gen(ctx, "d3", lits="{1,2,7,255}", neg="{1}")
        rng.shuffle(d3)
        trees += d3[:20000]
    div0 = gen(ctx, "div0")
    R = flow.Runner(ctx)
    npos = 0
    per = 10
    for i in range(0, len(trees), per):
        chunk = trees[i:i + per]
        # position 1: DD, three renderings
        st = [{"k": "org", "v": 0x7c00}]
        for t in chunk:
            e = styled(t["e"], rng)
            st.append({"k": "data", "mn": "DD", "items": [{"t": "e", "e": e, "text": render.expr_min(e)}]})
            st.append({"k": "data", "mn": "DD", "items": [{"t": "e", "e": e, "text": render.expr_min(e, redundant=True)}]})
            st.append({"k": "data", "mn": "DD", "items": [{"t": "e", "e": e, "text": render.expr_min(e, sp=" ")}]})
            npos += 3
        st.append({"k": "label", "nm": "fin"})
        R.add(st)
        # position 2: 32-bit immediate ; position 5: EQU body
        st = [{"k": "org", "v": 0x7c00}, {"k": "bits", "v": 32}]
        for j, t in enumerate(chunk):
            e = styled(t["e"], rng)
            st.append({"k": "ins", "mn": "MOV", "ops": [{"t": "r", "w": 32, "n": j % 8}, {"t": "e", "e": e, "text": render.expr_min(e)}]})
            st.append({"k": "equ", "nm": "X%d" % j, "e": e, "text": render.expr_min(e)})
            st.append({"k": "data", "mn": "DD", "items": [{"t": "e", "e": {"o": "id", "nm": "X%d" % j}}]})
            npos += 2
        st.append({"k": "label", "nm": "fin"})
        R.add(st)
        # position 3: displacement interleaved with a register ; position 4: RESB length
        st = [{"k": "org", "v": 0x7c00}]
        for j, t in enumerate(chunk):
            e = styled(t["e"], rng)
            st.append({"k": "ins", "mn": "MOV", "ops": [{"t": "r", "w": 16, "n": 0},
                                                          {"t": "m", "w": 0, "aw": 16, "b": 3, "x": -1, "sc": 1, "d": 0, "dx": e, "dxtext": render.expr_min(e)}]})
            npos += 1
            if 0 <= t["v"] <= 300:
                st.append({"k": "resb", "e": e, "text": render.expr_min(e)})
                npos += 1
        st.append({"k": "label", "nm": "fin"})
        R.add(st)
        # position 6: `$` inside an EQU body denotes the address of the EQU statement, also when the body mentions a name
        # that is only defined further down and the name is used at another address
        st = [{"k": "org", "v": 0x7c00}, {"k": "data", "mn": "DB", "items": [{"t": "e", "e": {"o": "n", "v": 1}}, {"t": "e", "e": {"o": "n", "v": 2}}, {"t": "e", "e": {"o": "n", "v": 3}}]}]
        for j, t in enumerate([t for t in chunk if abs(t["v"]) < 1000000000][:4]):      # (TLC integers: value + address must stay inside int32)
            e = styled(t["e"], rng)
            st.append({"k": "equ", "nm": "XF%d" % j, "e": {"o": "+", "a": {"o": "id", "nm": "YF%d" % j}, "b": {"o": "$"}}})
            st.append({"k": "equ", "nm": "YF%d" % j, "e": e, "text": render.expr_min(e)})
            st.append({"k": "data", "mn": "DB", "items": [{"t": "e", "e": {"o": "n", "v": 0}}, {"t": "e", "e": {"o": "n", "v": 0}}]})
            st.append({"k": "data", "mn": "DD", "items": [{"t": "e", "e": {"o": "id", "nm": "XF%d" % j}}]})
            npos += 1
        st.append({"k": "label", "nm": "fin"})
        R.add(st)
        # position 7: the same trees over NAMED constants (every literal leaf replaced by an EQU name defined at the top); the names
        # are shared by all trees of the program, so evaluating one expression must not disturb the value another one sees
        defs, st7 = {}, []
        for t in chunk:
            e = named(t["e"], defs)
            st7.append({"k": "data", "mn": "DD", "items": [{"t": "e", "e": e, "text": render.expr_min(e)}]})
            npos += 1
        st = [{"k": "org", "v": 0x7c00}] + [{"k": "equ", "nm": nm, "e": {"o": "n", "v": v}} for nm, v in sorted(defs.items())] + st7
        st += [{"k": "data", "mn": "DD", "items": [{"t": "e", "e": {"o": "id", "nm": nm}}]} for nm in sorted(defs)] + [{"k": "label", "nm": "fin"}]
        R.add(st)
    # (w) values on both sides of 2^31 / 2^32 (gosk evaluates in 64 bits; TLC's integers are 32 bits wide, so the reference for
    # these is the exact arithmetic of spec/Big.tla): trees from Gen_Big.tla, as DD operands, over shared EQU names, and as EQU bodies
    wide = gen_big(ctx, "d1")
    for part in ("d2l", "d2r", "d2n"):
        cs = gen_big(ctx, part)
        rng.shuffle(cs)
        cs = cs[:400] if quick else cs[:6000]
        wide += cs
    nwide = 0
    for i in range(0, len(wide), 12):
        chunk = wide[i:i + 12]
        st = [{"k": "org", "v": 0x7c00}]
        for t in chunk:
            st.append({"k": "datab", "mn": "DD", "e": t["e"], "defs": {}, "text": render.expr_min(t["e"])})
            st.append({"k": "datab", "mn": rng.choice(["DD", "DW", "DB"]), "e": t["e"], "defs": {}, "text": render.expr_min(t["e"], redundant=True, sp=" ")})
            nwide += 2
        st.append({"k": "label", "nm": "fin"})
        R.add(st)
        defs, body = {}, []
        for t in chunk:
            e = named_big(t["e"], defs)
            body.append((e, render.expr_min(e)))
        st = [{"k": "org", "v": 0x7c00}] + [{"k": "equb", "nm": nm, "e": x} for nm, x in sorted(defs.items())]
        for j, (e, text) in enumerate(body):
            st.append({"k": "datab", "mn": "DD", "e": e, "defs": dict(defs), "text": text})
            d2 = dict(defs)
            d2["XW%d" % j] = e
            st.append({"k": "equb", "nm": "XW%d" % j, "e": e, "text": text})
            st.append({"k": "datab", "mn": "DD", "e": {"o": "id", "nm": "XW%d" % j}, "defs": d2})
            nwide += 2
        st.append({"k": "label", "nm": "fin"})
        R.add(st)
    npos += nwide
    for t in div0:
        R.add([{"k": "data", "mn": "DD", "items": [{"t": "e", "e": t["e"], "text": render.expr_min(t["e"])}]}, {"k": "label", "nm": "fin"}])
    R.run()
    ver = ctx.validate("Trace_Asm", R.traces(), nproc=12)
    F = Findings()
    viol, known, other = flow.classify(ctx, ver, R, F, "C06")
    # zero divisors must be diagnosed (judged by C07's clause; reported here as a violation of C06's "accepted expression" premise only if silent)
    clean = sum(1 for c in R.cases if not is_diagnosed(R.end(c["id"])))
    cov = {"states": sum(s["distinct"] for s in ctx.tlc_stats), "transitions": sum(s["generated"] for s in ctx.tlc_stats),
           "traces_validated_against_impl": len(R.cases), "trace_events": ver["events"],
           "trees": len(trees), "wide_trees": len(wide), "wide_positions": nwide, "positions_checked": npos, "zero_divisor_trees": len(div0),
           "statements_judged": sum(i["judged"] for i in ver["info"]), "programs_without_diagnostic": clean,
           "evaluations": npos, "distinct_nontrivial": len(trees),
           "rule": "TLC enumerates (Gen_Expr.tla) all trees of depth 1 and depth 2 (left- and right-deep)%s over literals %s and -%s and + - * / %% whose intermediate values fit int32%s; each tree is rendered with minimal parentheses, with redundant parentheses and with blanks around operators, "
                   "decimal/hex literal styles chosen by seed, and placed in DD, MOV EAX,imm, [BX+disp], RESB and EQU positions, and once more with every literal replaced by a shared EQU name; the observed value must equal Eval(tree)" % (
                       " (quick: depth 2 sampled by seed)" if quick else "", LITS, NEG, "" if quick else "; depth 3 balanced trees over a reduced literal set sampled by seed"),
           "model_checking": "Expr.tla: the grammar's AddExp/MultExp/PrimaryExp rules as a recursive-descent parser; Parse(Render(t)) = t for both rendering styles over all %d trees of depth <= 2 over %s" % (mcst["distinct"], "one leaf value" if quick else "two leaf values"),
           "samples": [R.cases[i]["src"] for i in (0, 1, 2)], "tlc_runs": ctx.tlc_stats[:5], "exhaustive": False}
    return report.finish(ctx, "C06", viol, known, other, R, cov, ASSUME)
