# C14 - statements assemble independently of their neighbours.
import random

import progs
import relcheck
import flow

ASSUME = ["TLC evaluates the relation 'cat' (out(A;B) = out(A) o out(B)) on the output bytes of the three runs; each run is also validated individually",
          "sequences are label-free and position-independent (no $, no ALIGNB, no branches): spec/Gen_Prog.tla flavour 'pic'"]


def run(ctx):
    ctx.build()
    quick = ctx.tier == "quick"
    rng = random.Random(ctx.seed)
    R = flow.Runner(ctx)
    npairs = 0
    for bits in (16, 32):
        pre = [{"k": "bits", "v": 32}] if bits == 32 else []
        seqs = [c["prog"] for c in progs.gen(ctx, 120 if quick else 1500, length=rng.choice([1, 2, 3]), nl=1, bits=bits, flavor="pic")]
        seqs += [c["prog"] for c in progs.gen(ctx, 60 if quick else 600, length=4, nl=1, bits=bits, flavor="pic", seed=ctx.seed + 1)]
        # pairs
        for i in range(0, len(seqs) - 1, 2):
            A, B = seqs[i], seqs[i + 1]
            a = R.add(pre + A)
            b = R.add(pre + B)
            ab = R.add(pre + A + B)
            R.rel("cat", ["C14"], a=a, b=b, ab=ab)
            ba = R.add(pre + B + A)
            R.rel("cat", ["C14"], a=b, b=a, ab=ba)
            npairs += 2
        # single-statement insertion / deletion inside longer programs
        longs = [c["prog"] for c in progs.gen(ctx, 20 if quick else 200, length=10, nl=1, bits=bits, flavor="pic", seed=ctx.seed + 2)]
        for P in longs:
            for _ in range(3 if quick else 8):
                i = rng.randrange(0, len(P) + 1)
                s = rng.choice(rng.choice(seqs))
                X, Y, S = P[:i], P[i:], [s]
                x = R.add(pre + X)
                y = R.add(pre + Y)
                sid = R.add(pre + S)
                xy = R.add(pre + X + Y)
                xs = R.add(pre + X + S)
                xsy = R.add(pre + X + S + Y)
                R.rel("cat", ["C14"], a=x, b=y, ab=xy)
                R.rel("cat", ["C14"], a=x, b=sid, ab=xs)
                R.rel("cat", ["C14"], a=xs, b=y, ab=xsy)
                npairs += 3
    R.run()
    return relcheck.finish(ctx, "C14", R, None,
                           "seeded label-free, position-independent statement sequences of length 1..4 (instruction and data forms of spec/Gen_Prog.tla, both modes): out(A;B) = out(A) o out(B) for both orders, "
                           "and single-statement insertions at random positions of 10-statement programs (out(X;s;Y) = out(X) o out(s) o out(Y))", ASSUME, extra={"relations": npairs})
