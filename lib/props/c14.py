# C14 - statements assemble independently of their neighbours.
import random

import progs
import relcheck
import flow

ASSUME = ["TLC evaluates the relation 'cat' (out(A;B) = out(A) o out(B)) on the output bytes of the three runs; each run is also validated individually",
          "sequences are label-free and position-independent (no $, no ALIGNB, no branches): spec/Gen_Prog.tla flavour 'pic'"]


def form_classes():
    """Groups of statements that agree in mnemonic and operand TYPES but need different forms (used by C14 and, as whole programs, by C10)."""
    R8_, R16_, R32_ = (lambda n: {"t": "r", "w": 8, "n": n}), (lambda n: {"t": "r", "w": 16, "n": n}), (lambda n: {"t": "r", "w": 32, "n": n})
    I_ = lambda v: {"t": "i", "v": v, "sty": "d"}
    MA = lambda d: {"t": "m", "w": 0, "aw": 0, "b": -1, "x": -1, "sc": 1, "d": d, "hd": 1, "sty": "h"}
    M16_ = lambda b: {"t": "m", "w": 0, "aw": 16, "b": b, "x": -1, "sc": 1, "d": 0, "hd": 0}
    M32_ = lambda b: {"t": "m", "w": 0, "aw": 32, "b": b, "x": -1, "sc": 1, "d": 0, "hd": 0}
    ins = lambda mn, *ops: {"k": "ins", "mn": mn, "ops": list(ops)}
    classes = {16: [[ins("MOV", R16_(0), MA(0x1234)), ins("MOV", R16_(0), M16_(3)), ins("MOV", R16_(0), M16_(6))],
                    [ins("MOV", R8_(0), MA(0x1234)), ins("MOV", R8_(0), M16_(6)), ins("MOV", R8_(1), M16_(6))],
                    [ins("MOV", MA(0x1234), R16_(0)), ins("MOV", M16_(3), R16_(0))],
                    [ins("ADD", R16_(0), I_(1)), ins("ADD", R16_(0), I_(1000)), ins("ADD", R16_(3), I_(1)), ins("ADD", R16_(3), I_(1000))],
                    [ins("ADD", R8_(0), I_(1)), ins("ADD", R8_(3), I_(1)), ins("CMP", R8_(0), I_(1)), ins("CMP", R8_(3), I_(1))],
                    [ins("CMP", R16_(0), R16_(3)), ins("CMP", R16_(3), R16_(0))],
                    [ins("IN", R8_(0), I_(0x60)), ins("IN", R8_(0), R16_(2)), ins("OUT", I_(0x60), R8_(0)), ins("OUT", R16_(2), R8_(0))],
                    [ins("SHL", R16_(0), I_(1)), ins("SHL", R16_(0), I_(4)), ins("SHR", R16_(0), I_(1))],
                    [ins("MOV", R16_(0), I_(1)), ins("MOV", R16_(3), I_(1)), ins("MOV", R8_(0), I_(1))]],
               32: [[ins("MOV", R32_(0), MA(0x1234)), ins("MOV", R32_(0), M32_(3)), ins("MOV", R32_(0), M32_(6))],
                    [ins("MOV", MA(0x1234), R32_(0)), ins("MOV", M32_(3), R32_(0))],
                    [ins("ADD", R32_(0), I_(1)), ins("ADD", R32_(3), I_(1)), ins("SUB", R32_(0), I_(1)), ins("SUB", R32_(3), I_(1))],
                    [ins("MOV", R32_(0), R32_(3)), ins("MOV", R32_(3), R32_(0))]]}
    # memory shapes that share operand TYPES (r, m) but select different forms: absolute (moffs for the accumulator), index without
    # base, base + index, base + disp8 / disp32 - with the accumulator and with another register, load and store
    MX = lambda aw, b, x, sc, d: {"t": "m", "w": 0, "aw": aw, "b": b, "x": x, "sc": sc, "d": d, "hd": 1 if d else 0, "sty": "h"}
    shapes32 = [MA(0x1000), MX(32, -1, 1, 4, 0x2000), MX(32, 3, 6, 1, 0), MX(32, 3, -1, 1, 8), MX(32, 3, -1, 1, 0x1000), MX(32, 5, 7, 2, 0x10)]
    shapes16 = [MA(0x1000), MX(16, 3, 6, 1, 0), MX(16, 5, -1, 1, 2), MX(16, 3, -1, 1, 0x300), MX(16, 6, -1, 1, 0)]
    classes[32] += [[ins("MOV", R32_(0), m) for m in shapes32], [ins("MOV", m, R32_(0)) for m in shapes32],
                    [ins("MOV", R8_(0), m) for m in shapes32[:4]], [ins("MOV", R32_(1), m) for m in shapes32[:4]],
                    [ins("ADD", R32_(0), m) for m in shapes32[:4]]]
    classes[16] += [[ins("MOV", R16_(0), m) for m in shapes16], [ins("MOV", m, R16_(0)) for m in shapes16],
                    [ins("MOV", m, R8_(0)) for m in shapes16[:4]]]
    return classes


def run(ctx):
    ctx.build(need_cli=True)
    quick = ctx.tier == "quick"
    rng = random.Random(ctx.seed)
    R = flow.Runner(ctx)
    npairs = 0
    for bits in (16, 32):
        pre = [{"k": "bits", "v": 32}] if bits == 32 else []
        seqs = [c["prog"] for c in progs.gen(ctx, 120 if quick else 1500, length=rng.choice([1, 2, 3]), nl=1, bits=bits, flavor="pic")]
        seqs += [c["prog"] for c in progs.gen(ctx, 60 if quick else 600, length=4, nl=1, bits=bits, flavor="pic", seed=ctx.seed + 1)]
        # pairs
        for i in range(0, len(seqs) - 1, 2):
            A, B = seqs[i], seqs[i + 1]
            a = R.add(pre + A)
            b = R.add(pre + B)
            ab = R.add(pre + A + B)
            R.rel("cat", ["C14"], a=a, b=b, ab=ab)
            ba = R.add(pre + B + A)
            R.rel("cat", ["C14"], a=b, b=a, ab=ba)
            npairs += 2
        # single-statement insertion / deletion inside longer programs
        longs = [c["prog"] for c in progs.gen(ctx, 20 if quick else 200, length=10, nl=1, bits=bits, flavor="pic", seed=ctx.seed + 2)]
        for P in longs:
            for _ in range(3 if quick else 8):
                i = rng.randrange(0, len(P) + 1)
                s = rng.choice(rng.choice(seqs))
                X, Y, S = P[:i], P[i:], [s]
                x = R.add(pre + X)
                y = R.add(pre + Y)
                sid = R.add(pre + S)
                xy = R.add(pre + X + Y)
                xs = R.add(pre + X + S)
                xsy = R.add(pre + X + S + Y)
                R.rel("cat", ["C14"], a=x, b=y, ab=xy)
                R.rel("cat", ["C14"], a=x, b=sid, ab=xs)
                R.rel("cat", ["C14"], a=xs, b=y, ab=xsy)
                npairs += 3
    # adjacent reservations / data directives (anything that merges neighbouring ocodes shows up here)
    def resb(n):
        return {"k": "resb", "e": {"o": "n", "v": n}}
    def db(*v):
        return {"k": "data", "mn": "DB", "items": [{"t": "e", "e": {"o": "n", "v": x}} for x in v]}
    adj = [[resb(3)], [resb(2)], [resb(0)], [db(1, 2)], [db(255)], [{"k": "data", "mn": "DW", "items": [{"t": "e", "e": {"o": "n", "v": 513}}]}],
           [resb(3), resb(2)], [db(1), db(2)], [resb(1), db(7), resb(1)]]
    for A in adj:
        for Bq in adj:
            a = R.add(A)
            b = R.add(Bq)
            ab = R.add(A + Bq)
            R.rel("cat", ["C14"], a=a, b=b, ab=ab)
            abq = R.add(A + [{"k": "equ", "nm": "ZZ", "e": {"o": "n", "v": 1}}, {"k": "label", "nm": "mid"}] + Bq)     # separated only by statements that emit nothing
            R.rel("cat", ["C14"], a=a, b=b, ab=abq)
            npairs += 2
    # statements whose bytes depend on EQU constants: the value of a symbol must not depend on which statements used it before
    Q = lambda n: {"o": "id", "nm": n}
    Nn = lambda v: {"o": "n", "v": v}
    B = lambda o, a, b: {"o": o, "a": a, "b": b}
    exprs = [Q("CYLS"), B("+", Q("CYLS"), Nn(1)), B("-", Q("CYLS"), Nn(1)), B("*", Q("CYLS"), Nn(2)), B("+", Nn(1), Q("CYLS")), B("*", Nn(3), Q("CYLS")),
             B("/", Q("CYLS"), Nn(2)), B("%", Q("CYLS"), Nn(3)), B("+", Q("CYLS"), Q("SECT")), Q("SECT"), B("*", Q("SECT"), Nn(18)), B("+", Q("SECT"), Nn(2)),
             B("*", {"o": "par", "a": B("+", Q("CYLS"), Nn(1))}, Nn(2))]
    def equ_stmt(e, kind):
        if kind == 0:
            return {"k": "ins", "mn": "MOV", "ops": [{"t": "r", "w": 8, "n": rng.choice([0, 4, 5])}, {"t": "e", "e": B("%", {"o": "par", "a": e}, Nn(100))}]}
        if kind == 1:
            return {"k": "ins", "mn": "MOV", "ops": [{"t": "r", "w": 16, "n": rng.choice([0, 1, 6])}, {"t": "e", "e": e}]}
        if kind == 2:
            return {"k": "data", "mn": rng.choice(["DB", "DW", "DD"]), "items": [{"t": "e", "e": e}]}
        return {"k": "ins", "mn": "CMP", "ops": [{"t": "r", "w": 8, "n": 1}, {"t": "e", "e": B("%", {"o": "par", "a": e}, Nn(100))}]}
    epre = [{"k": "equ", "nm": "CYLS", "e": Nn(10)}, {"k": "equ", "nm": "SECT", "e": Nn(512)}]
    for _ in range(150 if quick else 2500):
        A = [equ_stmt(rng.choice(exprs), rng.randrange(4)) for _k in range(rng.choice([1, 2]))]
        Bq = [equ_stmt(rng.choice(exprs), rng.randrange(4)) for _k in range(rng.choice([1, 2]))]
        a = R.add(epre + A)
        b = R.add(epre + Bq)
        ab = R.add(epre + A + Bq)
        R.rel("cat", ["C14"], a=a, b=b, ab=ab)
        npairs += 1
    # a constant name redefined between uses: each use sees the definition in force at that point
    for v1, v2 in ((1, 2), (10, 20), (0x60, 0x64)):
        A = [{"k": "equ", "nm": "NN", "e": Nn(v1)}, equ_stmt(Q("NN"), 2), equ_stmt(B("+", Q("NN"), Nn(1)), 1)]
        Bq = [{"k": "equ", "nm": "NN", "e": Nn(v2)}, equ_stmt(Q("NN"), 2), equ_stmt(B("*", Q("NN"), Nn(2)), 1)]
        a = R.add(A)
        b = R.add(Bq)
        ab = R.add(A + Bq)
        R.rel("cat", ["C14"], a=a, b=b, ab=ab)
        npairs += 1
    # statements that agree in mnemonic and operand TYPES but need different forms (accumulator short forms, moffs, imm8 / imm16,
    # port in DX / immediate port): each of a, b, a;b, b;a is assembled in a worker process of its own, so that anything the first
    # statement leaves behind (a memo keyed too coarsely, a flag) meets the second one in a known state
    classes = form_classes()
    ncoll = 0
    for bits, cls in classes.items():
        pre = [{"k": "bits", "v": 32}] if bits == 32 else []
        for group in cls:
            for x in range(len(group)):
                for y in range(len(group)):
                    if x == y:
                        continue
                    a = R.add(pre + [group[x]], fresh=True)
                    b = R.add(pre + [group[y]], fresh=True)
                    ab = R.add(pre + [group[x], group[y]], fresh=True)
                    R.rel("catany", ["C14"], a=a, b=b, ab=ab)
                    ncoll += 1
    npairs += ncoll
    # long runs of one statement - including statements gosk only reports (no handler) or reports although it assembles them -
    # followed by an ordinary tail: the tail's bytes do not depend on how many statements, or diagnostics, came before
    nrep = 0
    for bits in (16, 32):
        pre = [{"k": "bits", "v": 32}] if bits == 32 else []
        w = 16 if bits == 16 else 32
        m32 = {"t": "m", "w": 32, "aw": 32, "b": 3, "x": -1, "sc": 1, "d": 8, "hd": 1}
        pool = [{"k": "ins", "mn": "XCHG", "ops": [{"t": "r", "w": 16, "n": 0}, {"t": "r", "w": 16, "n": 3}]},
                {"k": "ins", "mn": "TEST", "ops": [{"t": "r", "w": 8, "n": 0}, {"t": "i", "v": 1, "sty": "d"}]},
                {"k": "ins", "mn": "STOSB", "ops": []},
                {"k": "ins", "mn": "PUSH", "ops": [m32]}, {"k": "ins", "mn": "POP", "ops": [m32]},
                {"k": "ins", "mn": "MOV", "ops": [{"t": "r", "w": w, "n": 1}, {"t": "i", "v": 2, "sty": "d"}]},
                {"k": "data", "mn": "DB", "items": [{"t": "e", "e": {"o": "/", "a": {"o": "n", "v": 1}, "b": {"o": "n", "v": 0}}}]},
                {"k": "ins", "mn": "MOV", "ops": [{"t": "r", "w": 8, "n": 0}, {"t": "l", "nm": "undefined_name", "add": 0}]}]
        tail = [{"k": "ins", "mn": "MOV", "ops": [{"t": "r", "w": w, "n": 0}, {"t": "i", "v": 1, "sty": "d"}]}, db(0x55, 0xAA), {"k": "ins", "mn": "RET", "ops": []}]
        for s_ in pool:
            for n in ((1, 19, 20, 21, 64) if quick else (1, 2, 9, 10, 11, 19, 20, 21, 32, 33, 64, 100, 256)):
                a = R.add(pre + [s_] * n)
                b = R.add(pre + tail)
                ab = R.add(pre + [s_] * n + tail)
                R.rel("catany", ["C14"], a=a, b=b, ab=ab)
                nrep += 1
        # and mixed: every pool statement once, n times over
        for n in (3, 8):
            a = R.add(pre + pool * n)
            b = R.add(pre + tail)
            ab = R.add(pre + pool * n + tail)
            R.rel("catany", ["C14"], a=a, b=b, ab=ab)
            nrep += 1
    npairs += nrep
    R.run()
    # through the real command (cmd/gosk reads and decodes the file itself): string data with bytes above 0x7f - Shift_JIS text, some
    # of it also valid UTF-8 - next to each other and alone; what the command makes of one statement's text must not depend on the
    # bytes of its neighbours.  The runs are recorded as result-only cases (no hooks) and judged by the same relation.
    import hashlib, os, re
    def cli_case(raw):
        cid = R.add([], src=raw.decode("latin-1"), notrace=True)
        d = os.path.join(ctx.scratch, "cli14_%d" % cid)
        os.makedirs(d)
        sp, dp = os.path.join(d, "in.nas"), os.path.join(d, "out.bin")
        open(sp, "wb").write(raw)
        r = ctx.run_cli([sp, dp], cwd=d)
        out = open(dp, "rb").read() if os.path.isfile(dp) else b""
        text = (r["out"] + r["err"]).decode("latin-1")
        nerr = len(re.findall(r"\[ *(error|alert) *\]", text)) + len(re.findall(r"(?m)^(\[[^\]]*\] )?Error", text))
        R.results[cid] = [{"e": "end", "id": cid, "status": "ok" if r["rc"] == 0 and not r["timeout"] else "exit", "exit": r["rc"], "out": list(out),
                           "sha": hashlib.sha256(out).hexdigest(), "outlen": len(out), "nstmt": -1, "loc": 0, "fmt": "", "diag": {"error": nerr, "Error": 0},
                           "stdout": text[:400] if "GOSK :" in text else ""}]
        return cid
    dbs = lambda b: b'\tDB\t"' + b + b'"\n'
    hi = [b"\xc3\xa9", b"\xb1", b"\xb1\xb2\xb3", b"\xc4\xb3\xc3\xb7", b"\x93\xfa\x96\x7b", b"abc", b"\xd0\xa0"]
    ncli = 0
    for x in hi:
        for y in hi:
            if x == y:
                continue
            a, b, ab = cli_case(dbs(x)), cli_case(dbs(y)), cli_case(dbs(x) + dbs(y))
            R.rel("catany", ["C14"], a=a, b=b, ab=ab)
            ncli += 1
    npairs += ncli
    return relcheck.finish(ctx, "C14", R, None,
                           "seeded label-free, position-independent statement sequences of length 1..4 (instruction and data forms of spec/Gen_Prog.tla, both modes): out(A;B) = out(A) o out(B) for both orders, "
                           "and single-statement insertions at random positions of 10-statement programs (out(X;s;Y) = out(X) o out(s) o out(Y))", ASSUME, extra={"relations": npairs})
