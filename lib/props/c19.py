# C19 - command-line contract: exit status, output file, source encoding.
import hashlib
import json
import os
import random
import shutil

import flow
import progs
import report
import render
from findings import Findings
from vlib import Machinery, log

ASSUME = ["Cli.tla is the outcome table of the contract (model-checked total and, where the contract fixes it, single-valued); TLC judges each observed run of the real binary against Cli!Allowed",
          "the checks run as root: unwritable paths are made by a missing parent directory or by naming a directory, not by permission bits",
          "'same' compares the destination with the bytes the in-process API (worker) produced for the same text; for Shift_JIS / UTF-8 sources, with the bytes of the comment-free form",
          "TLC cannot handle non-ASCII text: the byte sequences of the comments are enumerated by this driver from the classes listed in the rule"]

GARBAGE = bytes([0xEE]) * 5000


def sjis_lines(kind, rng, n):
    """comment lines (bytes) in Shift_JIS"""
    leads = list(range(0x81, 0xA0)) + list(range(0xE0, 0xEB))
    out = []
    if kind == "trail5c":
        for i, ld in enumerate(leads):     # alternately inside the comment and as its very last byte (0x5C = backslash in ASCII)
            out.append(b"; " + bytes([ld, 0x5C]) + (b" tail" if i % 2 else b""))
    elif kind == "trail7c":
        for ld in leads:
            out.append(b"; " + bytes([ld, 0x7C]) + b" tail")
    elif kind == "hankana":
        for a in range(0xA1, 0xE0, 2):
            out.append(b"; " + bytes([a, min(a + 1, 0xDF)]) * 6)
    elif kind == "kanji":
        for ld in leads:
            out.append(b"; " + bytes([ld, 0x40 + (ld % 0x3E)]) + bytes([ld, 0x80 + (ld % 0x70)]))
    elif kind == "utf8validkana":     # half-width katakana pairs that are also valid UTF-8 (lead C2..DF, trail A1..BF)
        for ld in range(0xC2, 0xE0):
            out.append(b"; " + bytes([ld, 0xA1 + (ld % 0x1F)]) * 8)
    rng.shuffle(out)
    return out[:n] if n else out


def utf8_lines():
    txt = ["; こんにちは世界", "; café naïve üñ", "# ハロー OS ブートセクタ",
           "; \U0001F600 emoji and 中文", "; €£¥ — dashes → arrows", "; ﻿ bom-like inside comment"]
    return [t.encode("utf-8") for t in txt]


def with_comments(base_lines, comment_lines, rng, at_top=0):
    """interleave comment lines (own lines and trailing) with the statement lines"""
    out = list(comment_lines[:at_top])
    rest = list(comment_lines[at_top:])
    for i, ln in enumerate(base_lines):
        if rest and rng.random() < 0.7:
            out.append(rest.pop())
        if rest and rng.random() < 0.4 and not ln.rstrip().endswith(b":"):
            c = rest.pop()
            out.append(ln + b"\t" + c)
        else:
            out.append(ln)
    out += rest
    return b"\n".join(out) + b"\n"


def run(ctx):
    ctx.build(need_cli=True)
    quick = ctx.tier == "quick"
    rng = random.Random(ctx.seed)
    out, mcst = ctx.tlc("Cli", workers=2, name="mc:Cli")
    work = os.path.join(ctx.scratch, "cli")
    os.makedirs(work, exist_ok=True)
    # sources
    # (an ASCII-only program: the command decodes its input as Shift_JIS; non-ASCII text is exercised separately below)
    flatprog = next(p_ for p_ in (progs.complete(c_, org=0x7c00, bits=16) for c_ in progs.gen(ctx, 12, length=12, nl=2, bits=16)) if render.program(p_).isascii())
    coffprog = [{"k": "cfg", "mn": "FORMAT", "s": "WCOFF"}, {"k": "bits", "v": 32}, {"k": "global", "names": ["_start"]}, {"k": "cfg", "mn": "SECTION", "s": ".text"},
                {"k": "label", "nm": "_start"}, {"k": "ins", "mn": "MOV", "ops": [{"t": "r", "w": 32, "n": 0}, {"t": "r", "w": 32, "n": 3}]}, {"k": "ins", "mn": "RET", "ops": []}]
    texts = {"flat": render.program(flatprog).encode(), "coff": render.program(coffprog).encode(), "empty": b"",
             "parseerr": b"\tMOV\tAX, 1\n\tMOV\tAX,,\n\tHLT\n"}
    longprog = [{"k": "org", "v": 0x7c00}]
    for i in range(1300):
        longprog.append({"k": "ins", "mn": "MOV", "ops": [{"t": "r", "w": 16, "n": i % 8}, {"t": "i", "v": i, "sty": "d"}]})
        longprog.append({"k": "data", "mn": "DB", "items": [{"t": "e", "e": {"o": "n", "v": i % 256}}]})
    texts["long"] = render.program(longprog).encode()
    base_lines = render.program(flatprog).encode().split(b"\n")[:-1]
    # API reference bytes for each good text
    R = flow.Runner(ctx)
    refid = {}
    for k in ("flat", "coff", "empty", "long"):
        refid[k] = R.add([], src=texts[k].decode(), notrace=True)
    # Shift_JIS bytes INSIDE string data (the command decodes the file as Shift_JIS; the reference is the API on the decoded text):
    # half-width katakana pairs that are also valid UTF-8 alone / next to bytes that are not, kanji, a 0x5C trail byte
    base_text = render.program(flatprog).encode()
    strs = {"str_kana_utf8ish": [b"\xc3\xa9"], "str_kana_mixed": [b"\xc3\xa9", b"\xb1"], "str_kana_mixed2": [b"\xb1\xb2", b"\xc3\xa9\xc4\xb3"],
            "str_kanji": [b"\x93\xfa\x96\x7b"], "str_trail5c": [b"\x95\x5c\x8e\xa6"], "str_ascii": [b"hello"]}
    for k, items in strs.items():
        texts[k] = base_text + b"".join(b'\tDB\t"' + it + b'"\n' for it in items)
        refid[k] = R.add([], src=texts[k].decode("shift_jis"), notrace=True)
    # a source that makes the assembler die abnormally, if the tree under test has one (classified by actually running it)
    cand = [b"\tINT\t256\n", b"A\tEQU\tA+1\n\tDB\tA\n", b"\tINT\tAX\n"]
    candid = [R.add([], src=c.decode(), notrace=True) for c in cand]
    # a source that passes the parser and pass 1 but makes pass 2 give up (a branch to a label whose name the placeholder
    # mechanism cannot express); classified by running it: the situation exists only if the tree under test really fails there
    p2cand = b"\tJMP\t.l\n.l:\n\tHLT\n"
    p2id = R.add([], src=p2cand.decode(), notrace=True)
    R.run()
    if R.end(p2id).get("status") == "exit":      # the process ended inside the job through os.Exit - with whatever status
        texts["pass2fail"] = p2cand
    crash_src = None
    for c, i in zip(cand, candid):
        if R.end(i).get("status") in ("panic", "signal", "timeout") or (R.end(i).get("status") == "exit" and R.end(i).get("exit") not in (0,)):
            crash_src = c
            break
    if crash_src is not None:
        texts["crash"] = crash_src
    api = {k: bytes.fromhex(R.end(i).get("hex", "")) for k, i in refid.items()}
    events = []
    eid = [0]

    def observe(sit, argv, srcbytes_expected=None, dstpath=None, pre=None):
        before = None
        if dstpath and os.path.isfile(dstpath):
            before = open(dstpath, "rb").read()
        r = ctx.run_cli(argv, timeout=60, cwd=work)
        if r["timeout"]:
            raise Machinery("CLI timeout in situation %s" % sit)
        after = None
        if dstpath and os.path.isfile(dstpath):
            after = open(dstpath, "rb").read()
        if dstpath is None or not os.path.exists(dstpath):
            da = "absent"
        elif os.path.isdir(dstpath):
            da = "untouched"
        elif srcbytes_expected is not None and after == srcbytes_expected and r["rc"] == 0:
            da = "image"
        elif after == before and before is not None:
            da = "untouched"
        elif after == b"":
            da = "empty"
        else:
            da = "other"
        text = (r["out"] + r["err"]).decode("latin-1")
        import re
        pos = bool(re.search(r"\b\d+:\d+\b", text))
        eid[0] += 1
        rc = r["rc"] if r["rc"] >= 0 else 128 - r["rc"]
        events.append({"e": "cli", "id": eid[0], "sit": sit,
                       "obs": {"exit": rc, "dstafter": da, "pos": pos, "same": da == "image"}, "argv": [a if len(a) < 80 else a[-60:] for a in argv]})
        return r

    nsit = 0
    for nargs in (0, 1, 2, 3):
        for flag in ("", "-v"):
            for src in ("missing", "dir", "empty", "flat", "coff", "parseerr") + (("crash",) if "crash" in texts else ()) + (("pass2fail",) if "pass2fail" in texts else ()):
                for dst in ("absent", "garbage", "nodir", "isdir"):
                    d = os.path.join(work, "s%d" % nsit)
                    os.makedirs(d)
                    nsit += 1
                    sp = os.path.join(d, "in.nas")
                    if src == "dir":
                        os.makedirs(sp)
                    elif src != "missing":
                        open(sp, "wb").write(texts[src])
                    if dst == "absent":
                        dp = os.path.join(d, "out.bin")
                    elif dst == "garbage":
                        dp = os.path.join(d, "out.bin")
                        open(dp, "wb").write(GARBAGE)
                    elif dst == "nodir":
                        dp = os.path.join(d, "no_such_dir", "out.bin")
                    else:
                        dp = os.path.join(d, "outdir")
                        os.makedirs(dp)
                    argv = ([flag] if flag else []) + [sp, dp, os.path.join(d, "out.lst")][:nargs]
                    observe({"nargs": nargs, "flag": flag, "src": src, "dst": dst}, argv,
                            srcbytes_expected=api.get(src), dstpath=dp if nargs >= 2 else (dp if dst in ("garbage", "isdir") else None))
    # a long (2600-line) valid source: the command must give what the API gives
    d = os.path.join(work, "long")
    os.makedirs(d)
    open(os.path.join(d, "in.nas"), "wb").write(texts["long"])
    observe({"nargs": 2, "flag": "", "src": "flat", "dst": "absent"}, [os.path.join(d, "in.nas"), os.path.join(d, "out.bin")],
            srcbytes_expected=api["long"], dstpath=os.path.join(d, "out.bin"))
    # source encodings: the comment-free form is `flat`
    kinds = ["trail5c", "trail7c", "hankana", "kanji", "utf8validkana"]
    enc_cases = []
    for k in kinds:
        lines = sjis_lines(k, rng, 0)
        for rep in range(1 if quick else 3):
            rng.shuffle(lines)
            enc_cases.append(("sjis", k, with_comments(base_lines, lines, rng)))
    # long files: a first part of >1 KiB in one class followed by another class (encoding sniffing must not depend on a prefix)
    for a in kinds:
        for b in kinds:
            first = sjis_lines(a, rng, 0) * 3
            second = sjis_lines(b, rng, 0)
            body = b"\n".join(first) + b"\n" + with_comments(base_lines, second, rng)
            enc_cases.append(("sjis", a + "+" + b, body))
    for i in range(2 if quick else 6):
        u = utf8_lines()
        rng.shuffle(u)
        enc_cases.append(("utf8", "utf8", with_comments(base_lines, u * 3, rng, at_top=i % 3)))
    for k in strs:
        d = os.path.join(work, "e%d" % nsit)
        os.makedirs(d)
        nsit += 1
        sp = os.path.join(d, "in.nas")
        open(sp, "wb").write(texts[k])
        dp = os.path.join(d, "out.bin")
        observe({"nargs": 2, "flag": "", "src": "sjis", "dst": "absent"}, [sp, dp], srcbytes_expected=api[k], dstpath=dp)
    for enc, kind, body in enc_cases:
        d = os.path.join(work, "e%d" % nsit)
        os.makedirs(d)
        nsit += 1
        sp = os.path.join(d, "in.nas")
        open(sp, "wb").write(body)
        dp = os.path.join(d, "out.bin")
        if nsit % 2:
            open(dp, "wb").write(GARBAGE)
        observe({"nargs": 2, "flag": "", "src": enc, "dst": "garbage" if nsit % 2 else "absent"}, [sp, dp], srcbytes_expected=api["flat"], dstpath=dp)
    # validate with TLC
    p = os.path.join(ctx.scratch, "cli_trace.ndjson")
    with open(p, "w") as f:
        for e in events:
            f.write(json.dumps(e) + "\n")
    outp, st = ctx.tlc("Trace_Cli", env={"TRACE": p}, workers=1, name="trace:Trace_Cli")
    if "TRACE-CONSUMED" not in outp:
        raise Machinery("Trace_Cli did not consume its trace\n" + "\n".join(outp.splitlines()[-20:]))
    rej = ctx.printed(outp, "REJ")
    byid = {e["id"]: e for e in events}
    viol = []
    for r in rej:
        r["sit"] = byid[r["id"]]["sit"]
        r["argv"] = byid[r["id"]]["argv"]
        viol.append(r)

    class FakeR:
        cases = []
    cov = {"states": mcst["distinct"], "transitions": mcst["generated"], "traces_validated_against_impl": len(events),
           "situations": nsit, "encoding_cases": len(enc_cases), "evaluations": len(events), "distinct_nontrivial": len(events),
           "rule": "all argument vectors of 0..3 positional arguments with/without -v x source in {missing, directory, empty, valid flat, valid WCOFF, parse error, crashing input} x destination in {absent, existing longer garbage, path in a missing directory, a directory} (the situation space of Cli.tla, complete); "
                   "plus the valid flat program with Shift_JIS comments (every lead byte with trail 0x5C, with trail 0x7C, half-width katakana, kanji, katakana pairs that are also valid UTF-8; and every ordered pair of these classes with a first part > 1 KiB) and UTF-8 comments, compared with the comment-free form",
           "samples": [events[5], events[len(events) // 2], events[-1]], "tlc_runs": ctx.tlc_stats[:3], "exhaustive": True}
    return report.finish(ctx, "C19", viol, [], [], None, cov, ASSUME)
