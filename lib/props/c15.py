# C15 - symbol names are arbitrary.
import progs
import relcheck
import flow
import variants

ASSUME = ["TLC evaluates the reference semantics and the relation 'eq' correctly; in the model names are opaque values",
          "the renaming is applied to the abstract program (labels, EQU names, every reference) before rendering; both variants are validated individually"]


def run(ctx):
    ctx.build()
    quick = ctx.tier == "quick"
    cells = variants.gen(ctx, "rename")
    R = flow.Runner(ctx)
    import random
    rng = random.Random(ctx.seed)
    nb = 0
    for bits in (16, 32):
        cases = progs.gen(ctx, 25 if quick else 300, length=14, nl=4, bits=bits)
        for c in cases:
            base = progs.complete(c, org=0x7c00, bits=bits)
            bid = R.add(base)
            nb += 1
            pick = cells if not quick else rng.sample(cells, 12)
            for cell in pick:
                m = variants.renaming_map(base, cell)
                if m is None:
                    continue
                rid = R.add(variants.rename(base, m))
                R.rel("eq", ["C15"], a=bid, b=rid)
    R.run()
    return relcheck.finish(ctx, "C15", R, None,
                           "seeded random programs (Gen_Prog.tla; labels, EQU names, references before/after definition; both modes) x injective renamings enumerated by TLC (Gen_Variants.tla 'rename': "
                           "8 adversarial families - prefixes/suffixes of one another, case variants, 40-character names sharing a 39-character prefix, template keywords, lower-case mnemonic/register look-alikes - x 10 rotations); relation: identical flat image",
                           ASSUME, extra={"base_programs": nb})
