# C15 - symbol names are arbitrary.
import progs
import relcheck
import flow
import variants

ASSUME = ["TLC evaluates the reference semantics and the relation 'eq' correctly; in the model names are opaque values",
          "the renaming is applied to the abstract program (labels, EQU names, every reference) before rendering; both variants are validated individually"]


def run(ctx):
    ctx.build()
    quick = ctx.tier == "quick"
    cells = variants.gen(ctx, "rename")
    R = flow.Runner(ctx)
    import random
    rng = random.Random(ctx.seed)
    nb = 0
    for bits in (16, 32):
        cases = progs.gen(ctx, 25 if quick else 300, length=14, nl=4, bits=bits)
        for c in cases:
            base = progs.complete(c, org=0x7c00, bits=bits)
            # names also inside size-qualified memory operands ([name] with BYTE/WORD/DWORD in front, both directions); what these
            # statements assemble to is C02's business, here only the independence from the spelling of the name is judged
            labs = [s_["nm"] for s_ in base if s_["k"] == "label"]
            ml = lambda nm, w: {"t": "m", "w": w, "aw": 0, "b": -1, "x": -1, "sc": 1, "d": 0, "hd": 0, "lab": nm}
            w_ = 16 if bits == 16 else 32
            extra = []
            for j, nm in enumerate(labs[:4]):
                extra.append({"k": "ins", "mn": "MOV", "ops": [ml(nm, [8, 16, 32][j % 3]), {"t": "i", "v": j + 1, "sty": "d"}]})
                extra.append({"k": "ins", "mn": "MOV", "ops": [{"t": "r", "w": w_, "n": j}, ml(nm, w_)]})
                extra.append({"k": "ins", "mn": "MOV", "ops": [ml(nm, 0), {"t": "r", "w": 8, "n": j}]})
            base = base[:-2] + extra + base[-2:]
            bid = R.add(base)
            nb += 1
            pick = cells if not quick else rng.sample(cells, 12)
            for cell in pick:
                m = variants.renaming_map(base, cell)
                if m is None:
                    continue
                rid = R.add(variants.rename(base, m))
                R.rel("eq", ["C15"], a=bid, b=rid)
    # COFF: only symbol-name fields and the string table may change
    import coffraw, coffcheck, hashlib, json, os
    from vlib import Machinery
    coffplan = []
    gl = ["g%d" % i for i in range(6)]
    for pi in range(6 if quick else 40):
        k = rng.choice([3, 4, 6])
        names = gl[:k]
        decl = list(names)
        rng.shuffle(decl)
        body = []
        for n in names:
            body += [{"k": "label", "nm": n}, {"k": "ins", "mn": "MOV", "ops": [{"t": "r", "w": 32, "n": rng.randrange(8)}, {"t": "r", "w": 32, "n": rng.randrange(8)}]}]
            if rng.random() < 0.7:
                body.append({"k": "ins", "mn": "RET", "ops": []})
        und = ["gu"] if rng.random() < 0.5 else []
        base = [{"k": "cfg", "mn": "FORMAT", "s": "WCOFF"}, {"k": "bits", "v": 32}, {"k": "cfg", "mn": "FILE", "s": "r.nas"},
                {"k": "global", "names": decl + und}, {"k": "cfg", "mn": "SECTION", "s": ".text"}] + body
        bid = R.add(base, maxout=1)
        pick = cells if not quick else rng.sample(cells, 16)
        for cell in pick:
            m = variants.renaming_map(base, cell)
            if m is None:
                continue
            rid = R.add(variants.rename(base, m), maxout=1)
            R.rel("eq", ["C15"], a=bid, b=bid)        # (keeps the pair in one trace group; the object relation is judged by Trace_Coff)
            coffplan.append((bid, rid, m, decl + und))
    R.run()
    events = []
    for bid, rid, m, decl in coffplan:
        ea, eb = R.end(bid), R.end(rid)
        if ea.get("status") != "ok" or eb.get("status") != "ok":
            continue
        oa = coffraw.read(bytes.fromhex(ea.get("hex", "")))
        ob = coffraw.read(bytes.fromhex(eb.get("hex", "")))
        events.append({"e": "coffpair", "id": rid, "a": oa, "b": ob, "map": [[list(k.encode()), list(v.encode())] for k, v in m.items()]})
        for (cid, end, dl) in ((rid, eb, [m.get(n, n) for n in decl]),):
            pe = end.get("pe", {"err": "no pe summary"})
            events.append({"e": "coff", "id": cid, "obj": ob,
                           "run": {"decl": [list(n.encode()) for n in dl], "flatsha": ob["textsha"], "file": list(b"r.nas"), "ext": [],
                                   "symp": [[list(n.encode()), v] for n, v in sorted(end.get("sym", {}).items())]},
                           "pe": {"err": pe.get("err", ""), "nsyms": len(pe.get("syms", [])) if not pe.get("err") else 0}})
    p = os.path.join(ctx.scratch, "coffpairs.ndjson")
    with open(p, "w") as f:
        for e in events:
            f.write(json.dumps(e, separators=(",", ":")) + "\n")
    extra_rej = []
    if events:
        outp, st = ctx.tlc("Trace_Coff", env={"TRACE": p}, workers=1, name="trace:Trace_Coff")
        if "TRACE-CONSUMED" not in outp:
            raise Machinery("Trace_Coff did not consume its trace\n" + "\n".join(outp.splitlines()[-20:]))
        extra_rej = ctx.printed(outp, "REJ")
        for r in extra_rej:
            if "C15" not in r["tags"]:
                r["tags"] = list(r["tags"]) + ["C15"]
    ctx.extra_rej = extra_rej
    return relcheck.finish(ctx, "C15", R, None,
                           "seeded random programs (Gen_Prog.tla; labels, EQU names, references before/after definition; both modes) x injective renamings enumerated by TLC (Gen_Variants.tla 'rename': "
                           "8 adversarial families - prefixes/suffixes of one another, case variants, 40-character names sharing a 39-character prefix, template keywords, lower-case mnemonic/register look-alikes - x 10 rotations); relation: identical flat image",
                           ASSUME, extra={"base_programs": nb, "coff_object_pairs": len(coffplan)})
