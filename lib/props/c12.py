# C12 - comments, spacing and line endings never change the output.
import random

import progs
import relcheck
import flow
import render
import variants

ASSUME = ["the layouts only vary gaps that the grammar permits (leading/trailing blanks, opcode-operand gap >= 1 blank, around ',', '+', '-', brackets, comments after a statement or on own lines, blank lines, LF/CRLF/CR, final newline after a non-label statement)",
          "TLC evaluates the relation 'eq'; every laid-out variant is also validated individually against the reference semantics, which cross-checks that it parsed to the same statements"]


def run(ctx):
    ctx.build(need_cli=True)
    quick = ctx.tier == "quick"
    rng = random.Random(ctx.seed)
    single = variants.gen(ctx, "layout1")
    full = variants.gen(ctx, "layoutN", workers=8) if not quick else None
    R = flow.Runner(ctx)
    nb = 0
    keys = ["ind", "sep", "comma", "brk", "opsp", "trail", "cmt", "cmtsp", "own", "blank", "eol", "final", "kwsp"]
    dom = {k: sorted({c[k] for c in single}, key=str) for k in keys}
    # object-file style sources: bracket directives directly followed by labels, GLOBAL lists (naskfunc.nas layout)
    objstyle = [[{"k": "cfg", "mn": "FORMAT", "s": "WCOFF"}, {"k": "cfg", "mn": "INSTRSET", "s": '"i486p"'}, {"k": "bits", "v": 32}, {"k": "cfg", "mn": "FILE", "s": "naskfunc.nas"},
                 {"k": "global", "names": ["_io_hlt", "_write_mem8"]}, {"k": "cfg", "mn": "SECTION", "s": ".text"},
                 {"k": "label", "nm": "_io_hlt"}, {"k": "ins", "mn": "HLT", "ops": []}, {"k": "ins", "mn": "RET", "ops": []},
                 {"k": "label", "nm": "_write_mem8"}, {"k": "ins", "mn": "MOV", "ops": [{"t": "r", "w": 32, "n": 1}, {"t": "m", "w": 0, "aw": 32, "b": 4, "x": -1, "sc": 1, "d": 4, "hd": 1}]},
                 {"k": "ins", "mn": "MOV", "ops": [{"t": "r", "w": 8, "n": 0}, {"t": "m", "w": 0, "aw": 32, "b": 4, "x": -1, "sc": 1, "d": 8, "hd": 1}]},
                 {"k": "ins", "mn": "MOV", "ops": [{"t": "m", "w": 0, "aw": 32, "b": 1, "x": -1, "sc": 1, "d": 0, "hd": 0}, {"t": "r", "w": 8, "n": 0}]}, {"k": "ins", "mn": "RET", "ops": []}],
                [{"k": "bits", "v": 32}, {"k": "label", "nm": "start"}, {"k": "ins", "mn": "MOV", "ops": [{"t": "r", "w": 32, "n": 0}, {"t": "i", "v": 1, "sty": "d"}]},
                 {"k": "br", "mn": "JMP", "tgt": {"t": "l", "nm": "start", "add": 0}}, {"k": "bits", "v": 16}, {"k": "label", "nm": "tail"}, {"k": "ins", "mn": "HLT", "ops": []}]]
    # size keywords in front of memory operands and far pointers (the gap after the keyword may be empty: BYTE[BX])
    mm = lambda w, aw, b, d: {"t": "m", "w": w, "aw": aw, "b": b, "x": -1, "sc": 1, "d": d, "hd": 1 if d else 0}
    ri = lambda w, n: {"t": "r", "w": w, "n": n}
    im = lambda v: {"t": "i", "v": v, "sty": "d"}
    kwstyle = [[{"k": "org", "v": 0x7c00}, {"k": "ins", "mn": "MOV", "ops": [mm(8, 16, 3, 0), im(1)]}, {"k": "ins", "mn": "MOV", "ops": [ri(16, 0), mm(16, 16, 6, 0)]},
                {"k": "ins", "mn": "MOV", "ops": [mm(16, 16, 3, 2), im(5)]}, {"k": "ins", "mn": "ADD", "ops": [mm(8, 16, 7, 1), im(3)]},
                {"k": "ins", "mn": "CMP", "ops": [mm(16, 16, 5, 4), im(100)]}, {"k": "far", "mn": "JMP", "seg": 16, "off": 27, "kw": "DWORD", "sty": "h"},
                {"k": "label", "nm": "tail"}, {"k": "ins", "mn": "HLT", "ops": []}],
               [{"k": "bits", "v": 32}, {"k": "ins", "mn": "MOV", "ops": [mm(32, 32, 1, 0), im(5)]}, {"k": "ins", "mn": "MOV", "ops": [ri(32, 0), mm(32, 32, 4, 4)]},
                {"k": "ins", "mn": "MOV", "ops": [mm(8, 32, 3, 12), im(7)]}, {"k": "ins", "mn": "ADD", "ops": [mm(32, 32, 6, 0), im(1)]},
                {"k": "far", "mn": "JMP", "seg": 16, "off": 27, "kw": "DWORD", "sty": "h"}, {"k": "label", "nm": "tail"}, {"k": "ins", "mn": "RET", "ops": []}]]
    for bits in (16, 32):
        cases = progs.gen(ctx, 15 if quick else 120, length=14, nl=3, bits=bits)
        allbases = [progs.complete(c, org=0x7c00, bits=bits) for c in cases] + (objstyle if bits == 32 else []) + [kwstyle[0 if bits == 16 else 1]]
        for base in allbases:
            bid = R.add(base)
            nb += 1
            lays = list(single)
            for _ in range(10 if quick else 40):     # seeded full random layouts (uniform EOL per file, other gaps per statement)
                if full:
                    lays.append(dict(rng.choice(full), kwsp=rng.choice(dom["kwsp"])))
                else:
                    lays.append({k: rng.choice(dom[k]) for k in keys})
            for lay in lays:
                src = render.program(base, layout=lay)
                vid = R.add(base, src=src)
                R.rel("eq", ["C12"], a=bid, b=vid)
            # per-statement mixed layouts (same EOL in the whole file)
            for _ in range(3 if quick else 10):
                eol = rng.choice(dom["eol"])
                mixed = []
                for _s in base:
                    l = {k: rng.choice(dom[k]) for k in keys}
                    l["eol"] = eol
                    mixed.append(l)
                vid = R.add(base, src=render.program(base, layout=mixed))
                R.rel("eq", ["C12"], a=bid, b=vid)
    # real programs as written (comments in Japanese, tab layouts, blank lines: /verif/corpus) against their canonical re-rendering,
    # and the same text under the other two line-ending conventions
    import corpus
    ncorpus = 0
    for name, a, b, nst, nraw in corpus.add(R, tags=("C12",)):
        ncorpus += 1
        ca = next(c for c in R.cases if c["id"] == a)
        for eol in ("\r\n", "\r"):
            vid = R.add(ca["stmts"], src=ca["src"].replace("\n", eol))
            R.rel("eq", ["C12"], a=a, b=vid)
    R.run()
    # the same through the real command (cmd/gosk reads and decodes the file itself): line-ending conventions x leading comment
    import hashlib, os
    ncli = 0
    d = os.path.join(ctx.scratch, "cli12")
    os.makedirs(d, exist_ok=True)
    # (ASCII-only programs: the command reads its input as Shift_JIS, so a UTF-8 string literal is a different text for it than for the API)
    bases = [c for c in R.cases if c["src"].isascii() and c["src"] == render.program(c["stmts"])][: (6 if quick else 40)]
    for bi, b in enumerate(bases):
        for eol in ("\n", "\r\n", "\r"):
            for top in (0, 1):
                for final in (1, 0):
                    lay = {"eol": eol, "final": final}
                    src = render.program(b["stmts"], layout=lay)
                    if top:
                        src = "; hello-os" + eol + "; second comment line" + eol + src
                    sp = os.path.join(d, "in_%d.nas" % ncli)
                    dp = os.path.join(d, "out_%d.bin" % ncli)
                    open(sp, "wb").write(src.encode())
                    r = ctx.run_cli([sp, dp])
                    data = open(dp, "rb").read() if os.path.isfile(dp) else b""
                    cid = R.add(b["stmts"], src=src, notrace=True)
                    R.results[cid] = [{"e": "end", "id": cid, "status": "ok" if r["rc"] == 0 else "exit", "exit": r["rc"] if r["rc"] >= 0 else 128 - r["rc"],
                                       "panic": "", "perr": "", "stdout": "", "outlen": len(data), "sha": hashlib.sha256(data).hexdigest()[:16],
                                       "diag": {"error": 0, "Error": 0, "warn": 0, "Warn": 0}, "nstmt": 0, "loc": 0, "fmt": ""}]
                    R.rel("eq", ["C12"], a=b["id"], b=cid)
                    ncli += 1
    # size as a layout dimension, through the real command: the same statements with long comments (source > 64 KiB, > 1 MiB in the
    # thorough tier) under the three line-ending conventions, and single comment lines longer than common buffer sizes (4 KiB, 64 KiB,
    # 1 MiB) on a line of their own and after a statement - anything that reads the file in bounded pieces shows up here
    def cli_run(stmts, raw, ref):
        nonlocal ncli
        sp = os.path.join(d, "big_%d.nas" % ncli)
        dp = os.path.join(d, "bigout_%d.bin" % ncli)
        open(sp, "wb").write(raw)
        r = ctx.run_cli([sp, dp])
        data = open(dp, "rb").read() if os.path.isfile(dp) else b""
        os.remove(sp)
        cid = R.add(stmts, src="; %d bytes of source, see lib/props/c12.py (size dimension)" % len(raw), notrace=True)
        R.results[cid] = [{"e": "end", "id": cid, "status": "ok" if r["rc"] == 0 else "exit", "exit": r["rc"] if r["rc"] >= 0 else 128 - r["rc"],
                           "panic": "", "perr": "", "stdout": "", "outlen": len(data), "sha": hashlib.sha256(data).hexdigest()[:16],
                           "diag": {"error": 0, "Error": 0, "warn": 0, "Warn": 0}, "nstmt": 0, "loc": 0, "fmt": ""}]
        R.rel("eq", ["C12"], a=ref, b=cid)
        ncli += 1
    big = [{"k": "org", "v": 0x7c00}]
    for j in range(400):
        big.append({"k": "ins", "mn": "MOV", "ops": [{"t": "r", "w": 8, "n": 0}, {"t": "i", "v": j % 200, "sty": "d"}]})
        big.append({"k": "ins", "mn": "OUT", "ops": [{"t": "i", "v": 0x60, "sty": "h"}, {"t": "r", "w": 8, "n": 0}]})
    big.append({"k": "ins", "mn": "HLT", "ops": []})
    bigsrc = render.program(big)
    bref = R.add(big, src=bigsrc)
    R.results.update(ctx.run_jobs([{"id": bref, "src": bigsrc}]))
    blines = bigsrc.split("\n")
    if blines[-1] == "":
        blines.pop()
    nbig = 0
    for per_line in ((110,) if quick else (110, 1400)):                       # ~ 95 KiB and ~ 1.1 MiB of source
        for eol in ("\n", "\r\n", "\r"):
            text = eol.join("%s\t; %s" % (l, ("line %d " % i) + "x" * per_line) for i, l in enumerate(blines)) + eol
            cli_run(big, text.encode(), bref)
            nbig += 1
    for n in ((5000, 70000) if quick else (4095, 4096, 5000, 65535, 65536, 70000, 1100000)):
        for eol in ("\n", "\r\n", "\r"):
            own = blines[:3] + ["; " + "c" * n] + blines[3:]                 # a comment line of its own
            cli_run(big, (eol.join(own) + eol).encode(), bref)
            after = blines[:3] + [blines[3] + " ; " + "c" * n] + blines[4:]   # after a statement
            cli_run(big, (eol.join(after) + eol).encode(), bref)
            blank = blines[:3] + [blines[3] + " " * n] + blines[4:]           # trailing blanks
            cli_run(big, (eol.join(blank) + eol).encode(), bref)
            nbig += 3
    return relcheck.finish(ctx, "C12", R, None,
                           "seeded random programs (incl. strings containing ',', ';', '#', blanks) x layouts enumerated by TLC (Gen_Variants.tla: all single-gap variations of the canonical layout%s) + seeded per-statement mixed layouts; through the command also sources of 95 KiB (thorough: and 1.1 MiB) with a comment on every line under LF/CRLF/CR and single comment lines / trailing blanks of 5 000 .. 70 000 (thorough: 4 095 .. 1 100 000) bytes; relation: same outcome class and identical output" % (
                               "" if quick else "; full product of 11 gap dimensions sampled by seed"), ASSUME, extra={"base_programs": nb})
