# C03 - label and $ values equal the real byte offsets.
import random

import flow
import insflow
import progs
import report
import render
from findings import Findings
from vlib import is_diagnosed

ASSUME = [
    "TLC evaluates the reference semantics correctly; the layout invariant Inv_C03 is model-checked on Asm.tla (MC_Asm) over all programs up to the stated length",
    "the real offset of a statement is the sum of the chunk lengths logged by the codegen hook (cross-checked against the output file)",
    "runs with a diagnostic are outside C03",
]

PARTS = ["rr", "ri", "rm", "mi", "seg", "acc", "stack", "shift", "unary", "imul", "misc", "noop", "lblmem"]


def mc(ctx, maxlen):
    cfg = "CONSTANTS\n  Alphabet <- AlphabetFull\n  MaxLen = %d\n  Dev = {}\nINIT Init\nNEXT Next\nINVARIANTS Inv_C03 Inv_C04 Inv_C05 Inv_C17\nCHECK_DEADLOCK FALSE\n" % maxlen
    out, st = ctx.tlc("MC_Asm", cfg_text=cfg, workers=12, name="mc:Asm(len<=%d)" % maxlen, timeout=3000, heap="12g")
    return st


def run(ctx):
    ctx.build()
    rng = random.Random(ctx.seed)
    quick = ctx.tier == "quick"
    mcst = mc(ctx, 4 if quick else 5)
    R = flow.Runner(ctx)
    # (a) random programs, several origins, both modes
    nprog = 0
    for bits in (16, 32):
        cs = progs.gen(ctx, 150 if quick else 2500, length=14 if quick else 24, nl=3 if quick else 5, bits=bits)
        for i, c in enumerate(cs):
            org = [None, 0, 0x100, 0x7c00, 0xc200][i % 5]
            R.add(progs.complete(c, org=org, bits=bits))
            nprog += 1
    # (a') forward-reference patterns: a label is mentioned by a branch before its definition (pass 1 then knows a provisional
    # value for it) and used again, as branch target / immediate / data, still before or after the definition
    L = lambda nm: {"t": "l", "nm": nm, "add": 0}
    def brs(mn, nm):
        return {"k": "br", "mn": mn, "tgt": {"t": "l", "nm": nm, "add": 0}}
    def movl(w, n, nm):
        return {"k": "ins", "mn": "MOV", "ops": [{"t": "r", "w": w, "n": n}, L(nm)]}
    npat = 0
    for bits in (16, 32):
        w = 16 if bits == 16 else 32
        for org in (None, 0x7c00, 0xc200):
            for first in ("JE", "JMP", "CALL", "JNC"):
                for second in ("movl", "JMP", "JE", "CALL", "dw_after", "equalias"):
                    for gap in (0, 3, 130):
                        st = ([{"k": "org", "v": org}] if org is not None else []) + ([{"k": "bits", "v": 32}] if bits == 32 else [])
                        st += [{"k": "ins", "mn": "NOP", "ops": []}, brs(first, "fin")]
                        if gap:
                            st.append({"k": "resb", "e": {"o": "n", "v": gap}})
                        if second == "movl":
                            st.append(movl(w, 3, "fin"))
                        elif second == "equalias":
                            st += [{"k": "equ", "nm": "FINQ", "e": {"o": "id", "nm": "fin"}}, movl(w, 6, "FINQ"), brs("JMP", "FINQ")]
                        elif second != "dw_after":
                            st.append(brs(second, "fin"))
                        st += [{"k": "ins", "mn": "HLT", "ops": []}, {"k": "label", "nm": "fin"}, {"k": "ins", "mn": "HLT", "ops": []},
                               {"k": "data", "mn": "DW", "items": [{"t": "e", "e": {"o": "id", "nm": "fin"}}]}, movl(w, 0, "fin"), brs("JMP", "fin"), {"k": "label", "nm": "end2"}]
                        R.add(st)
                        npat += 1
    # (a'') `$` inside EQU bodies (the address of the EQU statement), with and without names defined further down, used later
    nequ = 0
    for bits in (16, 32):
        w = 16 if bits == 16 else 32
        for org in (0, 0x7c00):
            for fwd in (0, 1):
                for gap in (0, 2, 7):
                    st = [{"k": "org", "v": org}] + ([{"k": "bits", "v": 32}] if bits == 32 else []) + [movl(w, 0, "top") if False else {"k": "ins", "mn": "NOP", "ops": []}]
                    st += [{"k": "label", "nm": "top"}]
                    body = {"o": "+", "a": {"o": "$"}, "b": {"o": "id", "nm": "PAD"}}
                    pad = {"k": "equ", "nm": "PAD", "e": {"o": "n", "v": 4}}
                    if not fwd:
                        st.append(pad)
                    st.append({"k": "equ", "nm": "HERE", "e": body})
                    st.append({"k": "equ", "nm": "HERE0", "e": {"o": "$"}})
                    st.append({"k": "data", "mn": "DW", "items": [{"t": "e", "e": {"o": "n", "v": 0x1111, "sty": "h"}}]})
                    if gap:
                        st.append({"k": "resb", "e": {"o": "n", "v": gap}})
                    if fwd:
                        st.append(pad)
                    st += [{"k": "data", "mn": "DW", "items": [{"t": "e", "e": {"o": "id", "nm": "HERE"}}]},
                           {"k": "data", "mn": "DD", "items": [{"t": "e", "e": {"o": "id", "nm": "HERE0"}}]},
                           movl(w, 3, "HERE"), movl(w, 6, "HERE0"),
                           {"k": "resb", "e": {"o": "-", "a": {"o": "+", "a": {"o": "id", "nm": "HERE0"}, "b": {"o": "n", "v": 64}}, "b": {"o": "$"}}},
                           {"k": "label", "nm": "after"}, {"k": "data", "mn": "DW", "items": [{"t": "e", "e": {"o": "id", "nm": "after"}}]}]
                    R.add(st)
                    nequ += 1
    # (b) every statement kind followed by a label whose value is embedded
    cells = []
    for p in PARTS:
        cs = insflow.gen(ctx, p)
        if quick:
            rng.shuffle(cs)
            cs = cs[:220]
        cells += cs
    ops = set(insflow.grammar_opcodes())
    cells = [c for c in cells if c["mn"] in ops]
    sweep = []
    for c in cells:
        sweep.append([c])
    for bits in (16, 32):
        n = 6
        for i in range(0, len(sweep), n):
            st = [{"k": "org", "v": 0x7c00}] + ([{"k": "bits", "v": 32}] if bits == 32 else [])
            st += [{"k": "label", "nm": "lbl0"}, {"k": "data", "mn": "DW", "items": [{"t": "e", "e": {"o": "n", "v": 0x1234}}, {"t": "e", "e": {"o": "n", "v": 0}}, {"t": "e", "e": {"o": "n", "v": 0}}]}]
            for j, cs in enumerate(sweep[i:i + n]):
                st += cs
                st.append({"k": "label", "nm": "af%d" % j})
                st.append({"k": "data", "mn": "DW", "items": [{"t": "e", "e": {"o": "id", "nm": "af%d" % j}}]})
                st.append({"k": "ins", "mn": "MOV", "ops": [{"t": "r", "w": 16 if bits == 16 else 32, "n": 6}, {"t": "l", "nm": "af%d" % j, "add": 0}]})
            R.add(st)
    import corpus
    ncorpus = len(corpus.add(R, tags=("C12", "C03")))      # real programs as written (/verif/corpus)
    R.run()
    # programs that do not parse (a mnemonic outside the grammar) are skipped by bisecting in the C01 check; here they just count as diagnosed
    ver = ctx.validate("Trace_Asm", R.traces(), nproc=12)
    F = Findings()
    viol, known, other = flow.classify(ctx, ver, R, F, "C03")
    clean = sum(1 for c in R.cases if not is_diagnosed(R.end(c["id"])))
    rejected = {r["id"] for r in ver["rej"]}
    cov = {
        "states": mcst["distinct"], "transitions": mcst["generated"],
        "model_checking": "MC_Asm: all programs of length <= %d over a 15-statement alphabet (labels, JMP/JE/JNZ/CALL to labels, DW/MOV of labels, NOP, RESB 1/126, ALIGNB 4, ORG, BITS 32); invariants Inv_C03 Inv_C04 Inv_C05 Inv_C17 hold" % (4 if quick else 5),
        "traces_validated_against_impl": len(R.cases), "corpus_programs": ncorpus, "trace_events": ver["events"],
        "random_programs": nprog, "forward_reference_patterns": npat, "dollar_in_equ_programs": nequ, "sweep_cells": len(cells) * 2,
        "programs_without_diagnostic": clean, "programs_fully_accepted_by_reference": clean - len([i for i in rejected if not is_diagnosed(R.end(i))]),
        "evaluations": len(R.cases), "distinct_nontrivial": clean,
        "rule": "(a) seeded random programs from spec/Gen_Prog.tla (TLC -simulate): instructions of every size class, DB/DW/DD, RESB, ALIGNB, EQU, labels referenced before and after definition, ORG in {none,0,0x100,0x7c00,0xc200}, both modes; "
                "(b) every cell of the C01 instruction universe followed by a label whose value is embedded with DW and MOV. non-trivial = assembled without diagnostic",
        "samples": [R.cases[i]["src"] for i in (0, nprog, len(R.cases) - 1)],
        "tlc_runs": ctx.tlc_stats[:6], "exhaustive": False,
    }
    return report.finish(ctx, "C03", viol, known, other, R, cov, ASSUME)
