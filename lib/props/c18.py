# C18 - compact encodings are chosen where the ISA offers them.
import inscheck

PARTS = ["c18r", "c18m", "acc", "stack"]


def run(ctx):
    return inscheck.run(ctx, "C18", PARTS, PARTS,
                        rule="Universe of C18: the six immediate-group ALU operations x every register and memory destination x immediates on both sides of -128/127, "
                             "accumulator-immediate forms, MOV between accumulators and absolute addresses, MOV reg,imm, PUSH/POP reg; length compared with MinLen of the TLA+ ISA model.")
