# C05 - data directives emit exactly their operand values.
import json
import random

import flow
import report
from findings import Findings
from vlib import log

ASSUME = [
    "TLC (tla2tools 1.8.0) evaluates the TLA+ reference semantics (spec/AsmSem.tla, Trace_Asm.tla) correctly",
    "the renderer lib/render.py writes the abstract statement it was given (cross-checked: the trace spec compares statement kinds with what gosk parsed)",
    "hooks (build tag verif) report the bytes gosk appends; cross-checked against the output file at every end event",
    "a statement for which gosk logs an error-level or 'Error' line is outside C05 (judged by C07)",
]


def gen(ctx, part, maxlen=1):
    cfg = 'CONSTANTS MaxLen = %d\n Part = "%s"\nINIT Init\nNEXT Next\nINVARIANT Emit\nCHECK_DEADLOCK FALSE\n' % (maxlen, part)
    out, st = ctx.tlc("Gen_Data", cfg_text=cfg, workers=4, name="gen:data:" + part)
    cases = ctx.printed(out, "CASE")
    cases.sort(key=lambda c: json.dumps(c, sort_keys=True))
    return cases, st


PREFIX = [{"k": "equ", "nm": "K5", "e": {"o": "n", "v": 5}},
          {"k": "data", "mn": "DB", "items": [{"t": "e", "e": {"o": "n", "v": 144}}]},
          {"k": "label", "nm": ".tbl"}, {"k": "data", "mn": "DB", "items": [{"t": "e", "e": {"o": "n", "v": 7}}]}, {"k": "label", "nm": "$x"},
          {"k": "data", "mn": "DB", "items": [{"t": "e", "e": {"o": "n", "v": 8}}]}, {"k": "label", "nm": "lbl.end"},
          {"k": "label", "nm": "lbl0"},
          {"k": "data", "mn": "DB", "items": [{"t": "e", "e": {"o": "n", "v": 1}}, {"t": "e", "e": {"o": "n", "v": 2}}]}]


def run(ctx):
    ctx.build()
    import c03
    mcst = c03.mc(ctx, 3 if ctx.tier == "quick" else 4)
    ctx.apalache("LayoutLemma", "Lemma")
    rng = random.Random(ctx.seed)
    quick = ctx.tier == "quick"
    R = flow.Runner(ctx)
    lists, st1 = gen(ctx, "lists", 2 if quick else 3)
    if quick and len(lists) > 1500:
        # exhaustive length-1 lists + seeded sample of the length-2 lists
        l1 = [c for c in lists if len(c["items"]) == 1]
        l2 = [c for c in lists if len(c["items"]) > 1]
        rng.shuffle(l2)
        lists = l1 + l2[:1200]
    resb, _ = gen(ctx, "resb")
    alignb, _ = gen(ctx, "alignb")
    dirs, _ = gen(ctx, "dirs")
    alphabet = [c["items"][0] for c in lists if len(c["items"]) == 1 and c["mn"] == "DB"]
    # long seeded lists (1..64 items)
    longs = []
    for _ in range(60 if quick else 600):
        mn = rng.choice(["DB", "DW", "DD"])
        n = rng.choice([4, 8, 16, 33, 64])
        its = [rng.choice(alphabet) for _ in range(n)]
        if mn != "DB":
            its = [it for it in its if it["t"] != "s"] or [alphabet[0]]
        longs.append({"k": "data", "mn": mn, "items": its})
    orgs = [0x7c00] if quick else [0x7c00, 0, 0x280000]
    ncells = 0
    if quick:   # label values beyond 16 bits: the single-item lists once more at a high origin
        l1 = [c for c in lists if len(c["items"]) == 1]
        for stmts, _ in flow.batch_cells(l1, 8, org=0x280000, prefix=PREFIX):
            R.add(stmts)
        ncells += len(l1)
    for org in orgs:
        for stmts, _ in flow.batch_cells(lists + longs + resb, 8, org=org, prefix=PREFIX):
            R.add(stmts)
        ncells += len(lists) + len(longs) + len(resb)
    # ALIGNB at every residue, aligned and unaligned origin
    for org in ([0x7c00, 0x7c01, 0] if quick else [0x7c00, 0x7c01, 0x7c02, 0, 3, 0x280000]):
        for a in alignb:
            for r in range(0, a["v"] + 1):
                stmts = [{"k": "org", "v": org}, {"k": "resb", "e": {"o": "n", "v": r}}, a,
                         {"k": "label", "nm": "after"}, {"k": "data", "mn": "DW", "items": [{"t": "e", "e": {"o": "id", "nm": "after"}}]},
                         a, {"k": "label", "nm": "after2"}]
                R.add(stmts)
                ncells += 1
    # directives interleaved with data: must emit nothing and not move LOC
    for d in dirs:
        stmts = [{"k": "org", "v": 0x7c00}, {"k": "label", "nm": "lbl0"},
                 {"k": "data", "mn": "DB", "items": [{"t": "e", "e": {"o": "n", "v": 1}}]}, d,
                 {"k": "data", "mn": "DW", "items": [{"t": "e", "e": {"o": "$"}}]}, {"k": "label", "nm": "tail"}]
        R.add(stmts)
        ncells += 1
    import corpus
    ncorpus = len(corpus.add(R, tags=("C12", "C05")))      # real programs as written (/verif/corpus)
    R.run()
    ver = ctx.validate("Trace_Asm", R.traces())
    F = Findings()
    viol, known, other = flow.classify(ctx, ver, R, F, "C05")
    judged = sum(i["judged"] for i in ver["info"])
    diagd = sum(1 for c in R.cases if not R.end(c["id"]).get("status") == "ok" or flow.is_diagnosed(R.end(c["id"])))
    distinct = len({c["src"] for c in R.cases})
    mc = [s for s in ctx.tlc_stats if s["name"].startswith("mc:")]
    cov = {
        "states": sum(s["distinct"] for s in ctx.tlc_stats), "transitions": sum(s["generated"] for s in ctx.tlc_stats),
        "traces_validated_against_impl": len(R.cases), "corpus_programs": ncorpus,
        "trace_events": ver["events"], "statements_judged_by_reference": judged,
        "programs_with_a_diagnostic": diagd, "cells": ncells, "distinct_programs": distinct,
        "evaluations": len(R.cases), "distinct_nontrivial": distinct - diagd,
        "rule": "cells = all DB/DW/DD operand lists of length <= %d over a %d-item alphabet (TLC-enumerated; quick tier samples the length-2 lists by seed), "
                "seeded lists of up to 64 items, RESB constants and addr-$ forms, ALIGNB 1..32 at every residue with aligned/unaligned ORG, "
                "and every non-emitting directive between data; non-trivial = program assembled without any diagnostic" % (2 if quick else 3, len(alphabet)),
        "samples": [R.cases[i]["src"] for i in (0, len(R.cases) // 2, len(R.cases) - 1)],
        "model_checking": "MC_Asm: Inv_C05 (data bytes, padding, directives emit nothing) holds in all %d states of all programs of length <= %d over a 15-statement alphabet" % (mcst["distinct"], 3 if ctx.tier == "quick" else 4), "symbolic_lemma": "LayoutLemma.tla (Apalache, all 32-bit addresses): AlignPad is the least non-negative padding that aligns, it is invariant under shifts by multiples of the alignment, and embedding modulo 2^16 commutes with addition", "tlc_runs": ctx.tlc_stats[:12],
        "exhaustive": not quick,
    }
    return report.finish(ctx, "C05", viol, known, other, R, cov, ASSUME)
