# C13 - no input crashes or hangs the assembler.
import json
import random
import re
import time

import flow
import matrix
import progs
import render
import report
from findings import Findings
from vlib import log

ASSUME = ["the oracle is trivial (the worker recovered a panic / the process died abnormally / a generous time budget was exceeded); TLA+ contributes the systematic input spaces (Gen_Matrix, Gen_Mut, Gen_Prog) and the totality of the design model, the verdict itself is an exploration",
          "a run that gosk itself ends through os.Exit after a 'GOSK : ...' message (any status) or with a parse error is a permitted outcome; a run the Go runtime ends (fatal error, unrecovered panic) is not",
          "time budget per input: 20 s for inputs of at most a few hundred tokens (the unchanged tree needs milliseconds); scale series: 60 s (quick) / 300 s (thorough) per point, a series stops at its first abnormal point, and time(4n)/time(n) (minimum of up to 3 runs, only judged when the larger point needs more than 2 s) must stay below 8 (quadratic would be 16)"]

TOK = {"comma": ",", "colon": ":", "lbracket": "[", "rbracket": "]", "plus": "+", "minus": "-", "star": "*", "slash": "/", "lparen": "(", "rparen": ")",
       "quote": '"', "squote": "'", "bignum": "99999999999999999999999999", "hexjunk": "0xZZ", "ident": "foo_bar", "reg": "EAX", "opcode": "MOV",
       "EQU": "EQU", "GLOBAL": "GLOBAL", "BYTE": "BYTE", "dollar": "$", "lbrace": "{{.x}}", "nul": "\x00", "tab": "\t", "cr": "\r", "semicolon": ";",
       "hash": "#", "dot": ".", "backslash": "\\", "utf8": "\u3042", "emptystr": '""', "emptychr": "''", "blankstr": '" "', "segoff": "8:"}

TOKRE = re.compile(r'"[^"\n]*"|\'[^\'\n]*\'|[A-Za-z_.$][A-Za-z0-9_.$]*|0[xX][0-9a-fA-F]+|[0-9]+|\n|[ \t]+|.', re.S)


def mutate(src, cell, grain):
    toks = TOKRE.findall(src)
    sig = [i for i, t in enumerate(toks) if t.strip() or t == "\n"]
    if not sig:
        return src
    i = sig[(cell["at"] * len(sig)) // grain]
    w = TOK[cell["with"]]
    op = cell["op"]
    t = list(toks)
    if op == "delete":
        del t[i]
    elif op == "insert":
        t.insert(i, w)
    elif op == "replace":
        t[i] = w
    elif op == "duplicate":
        t.insert(i, t[i])
    elif op == "swap" and i + 1 < len(t):
        t[i], t[i + 1] = t[i + 1], t[i]
    elif op in ("dupline", "delline"):
        lines = src.split("\n")
        li = (cell["at"] * len(lines)) // grain
        if op == "dupline":
            lines.insert(li, lines[li])
        else:
            del lines[li]
        return "\n".join(lines)
    return "".join(t)


def gen_mut(ctx, grain):
    cfg = "CONSTANTS Grain = %d\nINIT Init\nNEXT Next\nINVARIANT Emit\nCHECK_DEADLOCK FALSE\n" % grain
    out, st = ctx.tlc("Gen_Mut", cfg_text=cfg, workers=4, name="gen:mut")
    cs = ctx.printed(out, "CASE")
    cs.sort(key=lambda c: json.dumps(c, sort_keys=True))
    return cs


def died(e):
    """The process ended by itself inside the job.  That is a permitted outcome if gosk did it (os.Exit after a 'GOSK : ...' message,
    whatever the status), and abnormal if the Go runtime did (fatal error / unrecovered panic: status 2, runtime text on the output)."""
    so = e.get("stdout", "")
    if "fatal error:" in so or "panic:" in so or "goroutine " in so:
        return True
    if "GOSK :" in so:
        return False
    return e.get("exit") not in (17, 255, 254, 1)


def run(ctx):
    ctx.build(need_cli=True)
    quick = ctx.tier == "quick"
    rng = random.Random(ctx.seed)
    jobs = []
    meta = {}

    def add(src, kind, hexsrc=None):
        i = len(jobs) + 1
        j = {"id": i, "notrace": True, "maxout": 1}
        if hexsrc is not None:
            j["srchex"] = hexsrc
        else:
            j["src"] = src
        jobs.append(j)
        meta[i] = (kind, src if hexsrc is None else "hex:" + hexsrc[:200])
    # (a) the statement matrix
    mns = matrix.mnemonics()
    sh = {p: matrix.shapes(ctx, p) for p in ("n0", "n1", "n2", "n3", "far")}
    for mn in mns:
        pool = sh["n0"] + sh["n1"] + sh["far"] + (rng.sample(sh["n2"], 12) if quick else sh["n2"]) + (rng.sample(sh["n3"], 4) if quick else sh["n3"])
        for s in pool:
            st = matrix.statement(mn, s, rng.randrange(2))
            add(render.program(matrix.program(st, bits=rng.choice([16, 32]))), "matrix")
    # (b) token-level mutations of seed programs
    grain = 12 if quick else 40
    cells = gen_mut(ctx, grain)
    seeds = [render.program(progs.complete(c, org=0x7c00, bits=b)) for b in (16, 32) for c in progs.gen(ctx, 3 if quick else 10, length=12, nl=3, bits=b)]
    seeds.append('[FORMAT "WCOFF"]\n[INSTRSET "i486p"]\n[BITS 32]\n[FILE "x.nas"]\n\tGLOBAL\t_f, _g\n[SECTION .text]\n_f:\n\tMOV\tEAX, [ESP+4]\n\tRET\n_g:\n\tJMP\tDWORD 2*8:0x0000001b\n\tLGDT\t[_f]\n')
    for s in seeds:
        pick = cells if not quick else rng.sample(cells, 500)
        for c in pick:
            add(mutate(s, c, grain), "mutation")
        if not quick:          # seeded double mutations
            for _ in range(2000):
                a, b = rng.choice(cells), rng.choice(cells)
                add(mutate(mutate(s, a, grain), b, grain), "mutation2")
    # (b') definition cycles and self-references among EQU names, directly and through forward references, then uses
    for names in (["A"], ["A", "B"], ["A", "B", "C"], ["A", "B", "C", "D", "E"]):
        for fwd in (0, 1):
            for body in ("%s", "%s+1", "%s*2", "(%s)", "%s+%s"):
                ns = names if fwd else list(reversed(names))
                lines = []
                for i, n in enumerate(ns):
                    nxt = ns[(i + 1) % len(ns)]
                    lines.append("%s\tEQU\t%s" % (n, body.replace("%s", nxt)))
                for use in ("\tDB\t%s", "\tMOV\tAX, %s", "\tRESB\t%s", "\tJMP\t%s", "\tMOV\tAL, [%s]", "%s_\tEQU\t%s"):
                    add("\n".join(lines) + "\n" + (use.replace("%s", ns[0])) + "\n", "equcycle")
    # (b'') directives and pseudo-instructions with missing, ill-typed, negative or huge arguments; unknown directives
    odd = ["[BITS 64]", "[BITS x]", "[BITS]", "[BITS 16", "[FORMAT 1]", "[FORMAT \"ELF\"]", "[FILE]", "[FILE 3]", "[SECTION]", "[SECTION .data]", "[INSTRSET]", "[INSTRSET \"x\"]",
           "[OPTIMIZE -1]", "[PADSET 1]", "[PADDING 99999999999999999999]", "[ABSOLUTE 0]", "[FOO 1]", "[]", "GLOBAL", "GLOBAL 1", "GLOBAL a,", "EXTERN 1", "EXTERN", "X EQU", "EQU 1", "X EQU X",
           "X EQU \"s\"", ":", "L1: L2:", "1abc:", "ORG", "ORG AX", "ORG -1", "ORG 0x100000000", "ORG 1, 2", "ALIGNB", "ALIGNB 0", "ALIGNB 3", "ALIGNB -4", "ALIGNB 4294967296", "RESB", "RESB -1",
           "RESB 99999999999", "RESB AX", "RESB 1, 2", "DB", "DW", "DD 0x", "DB 1,,2", "DB -", "DB (", "DB 1/0", "DB 1%0", "DB 'abc", "DB \"abc", "DB \"\\q\"", "TIMES 3 DB 0", "TIMES", "END", "END x",
           "RESW 2", "RESD 1", "DQ 1", "DT 1", "ALIGN 4", "MOV", "MOV AX", "MOV AX,1,2,3,4", "JMP", "JMP 1:2:3", "JMP FAR", "JMP SHORT", "JMP NEAR x", "JMP DWORD", "CALL FAR [BX]", "INT", "INT -1",
           "INT 1,2", "LGDT", "LGDT AX", "LGDT [", "PUSH", "POP 1", "IN", "IN AL", "OUT 1", "RET AX", "$", "$ EQU 1", "MOV AX,$$", "MOV [$],AX", "MOV AX,[BX+SI+DI]", "MOV AX,[BX*2]", "MOV EAX,[ESP*2]",
           "MOV EAX,[EAX*3]", "MOV EAX,[EAX*16]", "MOV AX,[BX-]", "MOV AX,[]", "MOV AX,[[BX]]", "MOV BYTE WORD [BX],1", "MOV AX,BYTE", "MOV CR9,EAX", "MOV DR0,EAX", "MOV TR3,EAX", "MOV XMM0,XMM1"]
    for o in odd:
        for ctxl in ("%s\n", "\t%s\n", "\tORG\t0x7c00\n\tNOP\n\t%s\nfin:\n\tHLT\n", "[BITS 32]\n\t%s\n\tRET\n"):
            add(ctxl.replace("%s", o), "odd")
    # (c) random bytes and mixtures of valid fragments and bytes
    frags = [ln for s in seeds for ln in s.split("\n") if ln.strip()]
    for _ in range(800 if quick else 20000):
        n = rng.choice([1, 2, 8, 40, 200])
        if rng.random() < 0.5:
            b = bytes(rng.randrange(256) for _ in range(n))
        else:
            parts = []
            for _k in range(rng.randrange(1, 8)):
                parts.append(rng.choice(frags).encode() if rng.random() < 0.6 else bytes(rng.randrange(256) for _ in range(rng.randrange(1, 6))))
                parts.append(rng.choice([b"\n", b"\r\n", b" ", b"", b"\t", b","]))
            b = b"".join(parts)
        add(None, "bytes", hexsrc=b.hex())
    t0 = time.time()
    res = ctx.run_jobs(jobs, per_job_timeout=20.0)
    t_run = time.time() - t0
    viol = []
    outcomes = {}
    F = Findings()
    for j in jobs:
        e = res[j["id"]][-1]
        st = e.get("status")
        key = st if st != "exit" else "exit%d" % e.get("exit", -1)
        outcomes[key] = outcomes.get(key, 0) + 1
        bad = st in ("panic", "timeout", "signal") or (st == "exit" and died(e))
        if bad:
            kind, src = meta[j["id"]]
            viol.append({"id": j["id"], "tags": ["C13"], "why": "abnormal termination: %s %s" % (st, e.get("panic", "")[:120]), "at": "run", "i": 0,
                         "obs": [], "bits": 0, "kind": kind, "src": src, "panicat": e.get("panicat", "")})
    # (d) scale series through the worker: statements, nesting depth, long sums
    series = {}
    from findings import Findings as _F
    openf = _F().open
    known_series = {"equ_doubling": "D_EquReevalExponential"}
    known_hit = {}
    point_budget = 60.0 if quick else 300.0       # (the unchanged tree needs at most a few seconds for the largest point)
    def timed(src, reps=1):
        best, st = None, "ok"
        for _ in range(reps):
            r = ctx.run_jobs([{"id": 1, "src": src, "notrace": True, "maxout": 1}], sequential=True, per_job_timeout=point_budget)[1][-1]
            t, st = r.get("us", 0) / 1e6, r.get("status")
            if st == "exit" and died(r):
                st = "died"          # the process ended by itself, but not through one of gosk's own diagnosed exits (runtime fatal error)
            best = t if best is None else min(best, t)
            if st not in ("ok", "parse") or t < 0.5:
                break            # fast enough not to matter / abnormal: no need to repeat
        return best, st
    sizes = [250, 1000, 4000] if quick else [500, 2000, 8000, 32000]
    for name, mk in (("statements", lambda n: "\tMOV\tAX, 1\n" * n),
                     ("nesting", lambda n: "\tDD\t" + "(" * n + "1" + ")" * n + "\n"),
                     ("sum", lambda n: "\tDD\t" + "+".join(["1"] * n) + "\n"),
                     ("labels", lambda n: "".join("l%d:\n\tJMP\tl%d\n" % (i, i) for i in range(n))),
                     ("dblist", lambda n: "\tDB\t" + ", ".join(str(i % 256) for i in range(n)) + "\n"),
                     # nested products / sums around a leaf that cannot be folded (label, register, 1/0): n/50 levels
                     ("horner_label", lambda n: "lbl:\n\tMOV\tAX, " + "(" * (n // 50) + "lbl" + ")*2+1" * (n // 50) + "\n"),
                     ("nested_mul_reg", lambda n: "\tMOV\tAX, [" + "2*(" * (n // 50) + "BX" + ")" * (n // 50) + "]\n"),
                     # a chain of EQU names defined in REVERSE dependency order, each body mentioning the next name twice
                     ("equ_doubling", lambda n: "".join("E%d\tEQU\tE%d+E%d\n" % (i, i + 1, i + 1) for i in range(n // 200)) + "E%d\tEQU\t1\n\tDD\tE0\n" % (n // 200)),
                     ("horner_div0", lambda n: "\tDD\t" + "(" * (n // 50) + "1/0" + ")*2+1" * (n // 50) + "\n")):
        ts = []
        for n in sizes:
            t, st = timed(mk(n), reps=3)      # minimum of up to 3 runs: robust against a loaded machine
            ts.append((n, round(t, 3), st))
            if st not in ("ok", "parse") and not (st == "exit" and ts[-1][1] < 60) and known_series.get(name) in openf:
                known_hit[known_series[name]] = known_hit.get(known_series[name], 0) + 1
                break
            if st not in ("ok", "parse") and not (st == "exit" and ts[-1][1] < 60):
                viol.append({"id": 0, "tags": ["C13"], "why": "abnormal termination in scale series %s n=%d: %s" % (name, n, st), "at": "scale", "i": 0, "obs": [], "bits": 0, "kind": "scale", "src": name})
                break          # (larger points of a series that already failed would only cost their time budget again)
        series[name] = ts
        for (n1, t1, _), (n2, t2, _) in zip(ts, ts[1:]):
            if known_series.get(name) in openf:
                if t1 > 0.05 and t2 / t1 > 8.0 * (n2 / n1) / 4.0:
                    known_hit[known_series[name]] = known_hit.get(known_series[name], 0) + 1
                continue
            if t1 > 0.05 and t2 > 2.0 and t2 / t1 > 8.0 * (n2 / n1) / 4.0:
                viol.append({"id": 0, "tags": ["C13"], "why": "time grows faster than quadratic-ish bound in series %s: n=%d %.2fs -> n=%d %.2fs" % (name, n1, t1, n2, t2),
                             "at": "scale", "i": 0, "obs": [], "bits": 0, "kind": "scale", "src": name})

    # (d') beyond the scale C13 quantifies over (10^5 tokens = depth 50 000 assembles): parenthesis depth 100 000 exhausts the
    # goroutine stack inside the generated recursive-descent parser (listed finding; reported again if it ever ends differently)
    # the exponential re-evaluation of EQU chains in reverse dependency order, at two sizes that take fractions of a second
    # (listed finding D_EquReevalExponential): 18 and 22 levels - linear behaviour would give a ratio of about 1.2
    mkequ = lambda lv: "".join("E%d\tEQU\tE%d+E%d\n" % (i, i + 1, i + 1) for i in range(lv)) + "E%d\tEQU\t1\n\tDD\tE0\n" % lv
    t18, s18 = timed(mkequ(18), reps=2)
    t22, s22 = timed(mkequ(22), reps=2)
    series["equ_levels_18_22"] = [(18, round(t18 or 0, 3), s18), (22, round(t22 or 0, 3), s22)]
    if s22 not in ("ok", "parse", "exit") or ((t22 or 0) > 0.3 and (t22 or 0) > 6 * max(t18 or 0, 0.001)):
        if "D_EquReevalExponential" in openf:
            known_hit["D_EquReevalExponential"] = known_hit.get("D_EquReevalExponential", 0) + 1
        else:
            viol.append({"id": 0, "tags": ["C13"], "why": "EQU chain of 22 levels takes %.2fs, 18 levels %.2fs (%s)" % (t22 or 0, t18 or 0, s22), "at": "scale", "i": 0, "obs": [], "bits": 0, "kind": "scale", "src": "equ_levels_18_22"})
    if all(x[2] in ("ok", "parse") for x in series.get("nesting", [])):
        t, st = timed("\tDD\t" + "(" * 100000 + "1" + ")" * 100000 + "\n")
    else:
        t, st = 0, "ok"       # the nesting series itself already failed and was reported
    series["nesting_100000"] = [(100000, round(t or 0, 3), st)]
    if st not in ("ok", "parse") and not (st == "exit" and (t or 0) < 60):
        if "D_ParserStackDepth" in openf:
            known_hit["D_ParserStackDepth"] = 1
        else:
            viol.append({"id": 0, "tags": ["C13"], "why": "abnormal termination at parenthesis depth 100000: %s" % st, "at": "scale", "i": 0, "obs": [], "bits": 0, "kind": "scale", "src": "nesting_100000"})

    # (e) byte sequences through the real command: cmd/gosk reads and decodes the file itself (Shift_JIS), a path the worker's API
    # runs never enter.  Sizes around and far beyond common buffer sizes, texts without any line end, bytes that are not text.
    # Oracle: the process ends by itself within the budget, is not killed by a signal and prints no Go runtime panic / fatal error.
    import os, re
    cdir = os.path.join(ctx.scratch, "cli13")
    os.makedirs(cdir, exist_ok=True)
    prog = b"\tORG\t0x7c00\n" + b"\tMOV\tAL, 1\t; comment\n\tOUT\t0x60, AL\n" * 40 + b"\tHLT\n"
    mib = 1 << 20
    cli_inputs = [("empty", b""), ("only_cr", b"\r"), ("only_nul", b"\0" * 70000), ("no_eol_1MiB", b"A" * mib), ("comment_1MiB_no_eol", b";" + b"c" * mib),
                  ("comment_line_70000", prog + b"; " + b"c" * 70000 + b"\n" + prog[14:]), ("cr_only_200KiB", (prog * 40).replace(b"\n", b"\r")),
                  ("crlf_200KiB", (prog * 40).replace(b"\n", b"\r\n")), ("sjis_lead_at_eof", prog + b"; \x93\xfa\x96\x7b\x93"), ("sjis_trail_5c", prog + b"; \x95\x5c\x83\x5c\n"),
                  ("bytes_80_ff", prog + bytes(range(0x80, 0x100)) * 300 + b"\n"), ("db_string_70000", b'\tDB\t"' + b"s" * 70000 + b'"\n'),
                  ("blanks_1MiB", prog + b" " * mib + b"\n" + b"\tHLT\n"), ("utf8_bom", b"\xef\xbb\xbf" + prog), ("utf16_bom", b"\xff\xfe" + prog),
                  ("random_64KiB", bytes(rng.randrange(256) for _ in range(65536 + 17)))]
    ncli13 = 0
    for name, raw in (cli_inputs if not quick else cli_inputs):
        sp, dp = os.path.join(cdir, name + ".nas"), os.path.join(cdir, name + ".bin")
        open(sp, "wb").write(raw)
        r = ctx.run_cli([sp, dp], timeout=60 if quick else 300)
        os.remove(sp)
        text = (r["out"] + r["err"]).decode("latin-1")
        why = None
        if r["timeout"]:
            why = "no termination within the budget"
        elif r["rc"] < 0:
            why = "killed by signal %d" % -r["rc"]
        elif re.search(r"(?m)^(panic: |fatal error: |goroutine \d+ \[)", text):
            why = "runtime panic: " + (re.search(r"(?m)^(panic: .*|fatal error: .*)", text) or re.search(r"goroutine.*", text)).group(0)[:160]
        if why:
            viol.append({"id": 0, "tags": ["C13"], "why": "command line, input %s (%d bytes): %s" % (name, len(raw), why), "at": "cli", "i": 0, "obs": [], "bits": 0,
                         "kind": "cli", "src": "hex:" + raw[:2000].hex() if len(raw) <= 2000 else "%s: %d bytes, constructed in lib/props/c13.py (e)" % (name, len(raw))})
        outcomes["cli_exit_%d" % r["rc"]] = outcomes.get("cli_exit_%d" % r["rc"], 0) + 1
        ncli13 += 1

    class RR:
        cases = []
    known = []
    cov = {"evaluations": len(jobs) + sum(len(v) for v in series.values()) + ncli13, "command_line_inputs": ncli13, "distinct_nontrivial": len({meta[j["id"]][1] for j in jobs}),
           "outcomes": outcomes, "wall_s_running_inputs": round(t_run, 1), "scale_series_seconds": series,
           "inputs_by_kind": {k: sum(1 for m in meta.values() if m[0] == k) for k in ("matrix", "mutation", "mutation2", "equcycle", "odd", "bytes")},
           "states": sum(s["distinct"] for s in ctx.tlc_stats), "transitions": sum(s["generated"] for s in ctx.tlc_stats),
           "rule": "(a) every mnemonic of the grammar x operand-list shapes from Gen_Matrix.tla (0..3 operands of 16 kinds%s); (b) token-level mutations from Gen_Mut.tla (delete/insert/replace/duplicate/swap tokens, duplicate/delete lines, x %d positions x 34 replacement tokens incl. NUL, CR, braces, 26-digit numbers, empty strings) applied to %d seed programs%s; "
                   "(c) seeded random byte strings and mixtures of valid fragments and bytes; (d) scale series (statements, nesting depth, term count, labels, DB list) at n = %s; (e) 16 byte sequences through the real command (empty, no line end at 1 MiB, NUL bytes, CR-only / CRLF at 200 KiB, lines of 70 000 and 1 MiB, truncated Shift_JIS, bytes 0x80..0xff, BOMs, random 64 KiB); distinct = distinct input texts; all are non-trivial in the sense that each is a different input" % (
                       ", seeded sample of the 2/3-operand shapes" if quick else "", grain, len(seeds), "" if not quick else " (seeded sample of 500 per seed)", sizes),
           "samples": [meta[i][1][:200] for i in (1, len(jobs) // 2, len(jobs))], "exhaustive": False}
    for v in viol:
        v["source"] = v.get("src")
    # report (no Runner: sources are in the records)
    import os
    for fid, n in sorted(known_hit.items()):
        print("KNOWN-FINDING: property=C13 %s %s" % (fid, openf[fid]["what"]))
    cov["known_findings_reproduced"] = known_hit
    rc = 0
    shown = 0
    for v in viol:
        rp = ctx.write_replay(["C13", v["why"], v.get("src")], {"property": "C13", "rejection": v, "how": "feed `src` (text, or hex bytes after 'hex:') to gosk"})
        if shown < 20:
            print("VIOLATION property=C13 replay=%s" % rp)
            log("  ", json.dumps(v)[:300])
        shown += 1
        rc = 1
    ctx.write_evidence("exploration", cov, ASSUME, len(viol))
    return rc
