# C01 - emitted bytes decode to exactly the source instruction.
import inscheck

ALL = ["rr", "ri", "rm", "mi", "seg", "acc", "stack", "shift", "unary", "imul", "misc", "noop", "lblimm", "lblmem", "ext"]


def run(ctx):
    return inscheck.run(ctx, "C01", ALL, ALL,
                        sample_quick={"ri": 1500, "rm": 1500, "mi": 1000, "rr": 800},
                        rule="Universe of C01: every mnemonic gosk implements x operand forms x all 8 registers of each width in each position x boundary immediates x BITS.")
