# C16 - ORG relocates absolute references and nothing else.
import progs
import relcheck
import flow

ASSUME = ["TLC evaluates the reference semantics and the relation (spec/Trace_Asm.tla JudgeRel 'org') correctly",
          "both members of a pair are validated individually against the reference semantics; the relation is evaluated on the chunks logged by the hooks (cross-checked with the output files)"]

ORGS = [None, 0, 0x100, 0x7c00, 0xc200, 0x8000, 0xfff0]


def is_abs(s):
    if s["k"] == "ins":
        return any(o["t"] == "l" and o["nm"] not in ("CYLS", "BASE") for o in s["ops"])
    if s["k"] == "data":
        def has(e):
            return e["o"] in ("id", "$") and e.get("nm") not in ("CYLS", "BASE") or any(has(e[f]) for f in ("a", "b") if f in e)
        return any(it["t"] == "e" and has(it["e"]) for it in s["items"])
    if s["k"] == "resb":
        return False
    return False


def run(ctx):
    ctx.build()
    ctx.apalache("LayoutLemma", "Lemma")      # padding is invariant under shifts by multiples of the alignment; slot wrap-around (all addresses)
    quick = ctx.tier == "quick"
    cases = progs.gen(ctx, 60 if quick else 800, length=14 if quick else 20, nl=3, bits=16)
    R = flow.Runner(ctx)
    for c in cases:
        ids = {}
        body = None
        for o in ORGS:
            st = progs.complete(c, org=o, bits=16)
            ids[o] = (R.add(st), st)
        base_id, base_st = ids[None]
        absflags = [is_abs(s) for s in base_st]
        for o in ORGS[1:]:
            cid, st = ids[o]
            R.rel("org", ["C16"], a=base_id, b=cid, delta=o, sa=0, sb=1, abs=absflags)
        # and deltas between two non-zero origins
        R.rel("org", ["C16"], a=ids[0x7c00][0], b=ids[0xc200][0], delta=0xc200 - 0x7c00, sa=1, sb=1, abs=absflags)
        R.rel("org", ["C16"], a=ids[0xfff0][0], b=ids[0x100][0], delta=0x100 - 0xfff0, sa=1, sb=1, abs=absflags)
    R.run()
    return relcheck.finish(ctx, "C16", R, None,
                           "seeded random 16-bit programs (spec/Gen_Prog.tla: label-target branches, label immediates, DW/DD of labels, ALIGNB, RESB, EQU) x ORG in {none,0,0x100,0x7c00,0xc200,0x8000,0xfff0}; "
                           "relation per pair: same statement lengths, byte-identical statements unless they embed an absolute label value, every label shifted by exactly delta; no ORG == ORG 0",
                           ASSUME)
