# C11 - EQU names are transparent abbreviations.
import json
import random

import progs
import relcheck
import flow
import variants
import render

ASSUME = ["TLC evaluates the reference semantics (EQU = its defining expression, evaluated where it is defined) and the relation 'eq' correctly",
          "both variants are validated individually; EQU statements must own no bytes and must not move the location counter (checked at every p1 event)"]


def run(ctx):
    ctx.build()
    quick = ctx.tier == "quick"
    rng = random.Random(ctx.seed)
    cells = variants.gen(ctx, "equ")
    R = flow.Runner(ctx)
    nb = 0
    for bits in (16, 32):
        cases = progs.gen(ctx, 25 if quick else 250, length=14, nl=3, bits=bits)
        for c in cases:
            base = progs.complete(c, org=0x7c00, bits=bits)
            bid = R.add(base)
            nb += 1
            pick = rng.sample(cells, 10 if quick else 60)
            nprefix = 1 + (1 if bits == 32 else 0)
            for cell in pick:
                v = variants.abstract_equ(base, cell, nprefix)
                if v is None:
                    continue
                vid = R.add(v)
                R.rel("eq", ["C11"], a=bid, b=vid)
    # EQU-rich programs: definition chains (in dependency order and in reverse), every name used several times, alone and
    # inside arithmetic, in every position; the twin program has every name replaced by its parenthesised definition
    uses = variants.gen(ctx, "equuse")
    for pi in range(40 if quick else 600):
        bits = 16
        vals = [rng.choice([2, 3, 10, 18, 512]), rng.choice([2, 4, 18]), rng.choice([1, 2, 5]), rng.choice([1, 3])]
        defs = [("Q0", {"o": "n", "v": vals[0]}),
                ("Q1", {"o": "*", "a": {"o": "id", "nm": "Q0"}, "b": {"o": "n", "v": vals[1]}}),
                ("Q2", {"o": "+", "a": {"o": "id", "nm": "Q1"}, "b": {"o": "n", "v": vals[2]}}),
                ("Q3", {"o": "/", "a": {"o": "par", "a": {"o": "-", "a": {"o": "id", "nm": "Q2"}, "b": {"o": "n", "v": vals[3]}}}, "b": {"o": "n", "v": 2}})]
        body = dict(defs)

        def inline(e):
            if e["o"] == "id" and e["nm"] in body:
                return {"o": "par", "a": inline(body[e["nm"]])}
            r = dict(e)
            for f in ("a", "b"):
                if f in r:
                    r[f] = inline(r[f])
            return r

        def use_expr(cell):
            q = {"o": "id", "nm": "Q%d" % cell["name"]}
            r_ = {"o": "id", "nm": "Q%d" % ((cell["name"] + 1) % 4)}
            k = {"o": "n", "v": rng.choice([1, 2, 3])}
            f = cell["form"]
            B = lambda o, a, b: {"o": o, "a": a, "b": b}
            return {"Q": q, "Q*k": B("*", q, k), "k*Q": B("*", k, q), "Q+k": B("+", q, k), "k+Q": B("+", k, q), "Q-k": B("-", q, k),
                    "(Q)*k": B("*", {"o": "par", "a": q}, k), "Q/k": B("/", q, k), "Q%k": B("%", q, k), "Q*R": B("*", q, r_), "Q+R": B("+", q, r_),
                    "-Q+k": B("+", {"o": "neg", "a": {"o": "par", "a": q}} if False else B("-", {"o": "n", "v": 0}, q), k),
                    "(Q+k)*k": B("*", {"o": "par", "a": B("+", q, k)}, k)}[f]

        def stmt_for(cell, e, extra):
            p_ = cell["pos"]
            if p_ == "imm16":
                return [{"k": "ins", "mn": "MOV", "ops": [{"t": "r", "w": 16, "n": rng.choice([0, 1, 3])}, {"t": "e", "e": e}]}]
            if p_ == "imm8":
                return [{"k": "ins", "mn": "MOV", "ops": [{"t": "r", "w": 8, "n": rng.choice([0, 1, 5])}, {"t": "e", "e": {"o": "%", "a": {"o": "par", "a": e}, "b": {"o": "n", "v": 100}}}]}]
            if p_ in ("db", "dw", "dd"):
                return [{"k": "data", "mn": p_.upper(), "items": [{"t": "e", "e": e}]}]
            if p_ == "resb":
                return [{"k": "resb", "e": {"o": "%", "a": {"o": "par", "a": e}, "b": {"o": "n", "v": 50}}}]
            if p_ == "disp":
                return [{"k": "ins", "mn": "MOV", "ops": [{"t": "r", "w": 16, "n": 0}, {"t": "m", "w": 0, "aw": 16, "b": 3, "x": -1, "sc": 1, "d": 0, "dx": e}]}]
            nm = "X%d" % extra
            body[nm] = e
            return [{"k": "equ", "nm": nm, "e": e}, {"k": "data", "mn": "DW", "items": [{"t": "e", "e": {"o": "id", "nm": nm}}]}]
        st = [{"k": "org", "v": 0x7c00}, {"k": "data", "mn": "DB", "items": [{"t": "e", "e": {"o": "n", "v": 1}}, {"t": "e", "e": {"o": "n", "v": 2}}, {"t": "e", "e": {"o": "n", "v": 3}}]}]
        order = list(defs)
        # a body that mentions `$`: its value is the address of the EQU statement, wherever the name is used later
        order.insert(rng.randrange(len(order) + 1), ("QD", {"o": "+", "a": {"o": "id", "nm": "Q0"}, "b": {"o": "$"}}))
        usesd = True
        if pi % 4 == 3:
            order.reverse()      # derived names written BEFORE the names they depend on (all still before the first use)
        st += [{"k": "equ", "nm": n, "e": e} for n, e in order]
        cells_p = [rng.choice(uses) for _ in range(8)]
        for ci, cell in enumerate(cells_p):
            st += stmt_for(cell, use_expr(cell), ci)
        for n, _e in defs:          # every name once more, plainly, after all the arithmetic uses
            st.append({"k": "data", "mn": "DW", "items": [{"t": "e", "e": {"o": "id", "nm": n}}]})
        dtail = [{"k": "data", "mn": "DW", "items": [{"t": "e", "e": {"o": "id", "nm": "QD"}}]},
                 {"k": "ins", "mn": "MOV", "ops": [{"t": "r", "w": 16, "n": 2}, {"t": "l", "nm": "QD", "add": 0}]}]
        st.append({"k": "label", "nm": "fin"})

        def inl_stmt(s_):
            s2 = json.loads(json.dumps(s_))
            if s2["k"] == "equ":
                return None
            if s2["k"] == "data":
                for it in s2["items"]:
                    if it["t"] == "e":
                        it["e"] = inline(it["e"])
            if s2["k"] == "resb":
                s2["e"] = inline(s2["e"])
            if s2["k"] == "ins":
                for o in s2["ops"]:
                    if o["t"] == "e":
                        o["e"] = inline(o["e"])
                    if o["t"] == "m" and "dx" in o:
                        o["dx"] = inline(o["dx"])
            return s2
        twin = [x for x in (inl_stmt(s_) for s_ in st) if x is not None]
        st = st[:-1] + dtail + st[-1:]       # (the `$`-bodied name has no textual twin: it is judged by the reference semantics)
        a = R.add(st)
        b = R.add(twin)
        R.rel("eqpre", ["C11"], a=b, b=a)
        nb += 1
    # EQU names that stand for LABELS (defined before the EQU, after it, or already mentioned by a forward branch), and bare
    # aliases of EQU names that are only defined further down; the twin program has the label / the final constant written out
    L = lambda nm: {"t": "l", "nm": nm, "add": 0}
    def brs(mn, nm):
        return {"k": "br", "mn": mn, "tgt": {"t": "l", "nm": nm, "add": 0}}
    def use_all(nm, w):
        return [{"k": "ins", "mn": "MOV", "ops": [{"t": "r", "w": w, "n": 3}, L(nm)]}, brs("JNE", nm), brs("CALL", nm),
                {"k": "data", "mn": "DW", "items": [{"t": "e", "e": {"o": "id", "nm": nm}}]}]
    for bits in (16, 32):
        w = 16 if bits == 16 else 32
        for org in (0x7c00, 0xc200):
            for shape in ("label_before", "label_after_fwd_branch", "label_after", "bare_alias_fwd", "alias_chain_fwd"):
                pre = [{"k": "org", "v": org}] + ([{"k": "bits", "v": 32}] if bits == 32 else [])
                if shape == "label_before":
                    body = [{"k": "label", "nm": "msg"}, {"k": "data", "mn": "DB", "items": [{"t": "s", "b": [104, 105]}, {"t": "e", "e": {"o": "n", "v": 0}}]},
                            {"k": "equ", "nm": "MSGQ", "e": {"o": "id", "nm": "msg"}}]
                    uses = lambda nm: use_all(nm, w)
                    tw = "msg"
                    tail = []
                elif shape == "label_after_fwd_branch":
                    body = [brs("JMP", "fin"), {"k": "ins", "mn": "NOP", "ops": []}, {"k": "equ", "nm": "MSGQ", "e": {"o": "id", "nm": "fin"}}]
                    uses = lambda nm: [u for u in use_all(nm, w) if u["k"] != "data"]
                    tw = "fin"
                    tail = [{"k": "label", "nm": "fin"}, {"k": "ins", "mn": "HLT", "ops": []}]
                elif shape == "label_after":
                    body = [{"k": "equ", "nm": "MSGQ", "e": {"o": "id", "nm": "fin"}}]
                    uses = lambda nm: [u for u in use_all(nm, w) if u["k"] != "data"]
                    tw = "fin"
                    tail = [{"k": "label", "nm": "fin"}, {"k": "ins", "mn": "HLT", "ops": []}]
                elif shape == "bare_alias_fwd":
                    body = [{"k": "equ", "nm": "MSGQ", "e": {"o": "id", "nm": "KBC"}}, {"k": "equ", "nm": "KBC", "e": {"o": "n", "v": 0x60, "sty": "h"}}]
                    uses = lambda nm: [{"k": "ins", "mn": "IN", "ops": [{"t": "r", "w": 8, "n": 0}, L(nm)]}, {"k": "ins", "mn": "MOV", "ops": [{"t": "r", "w": 8, "n": 1}, L(nm)]},
                                       {"k": "data", "mn": "DB", "items": [{"t": "e", "e": {"o": "id", "nm": nm}}]}, {"k": "resb", "e": {"o": "-", "a": {"o": "id", "nm": nm}, "b": {"o": "n", "v": 0x50}}}]
                    tw = None
                    tail = []
                else:
                    body = [{"k": "equ", "nm": "MSGQ", "e": {"o": "id", "nm": "MID"}}, {"k": "equ", "nm": "MID", "e": {"o": "id", "nm": "KBC"}},
                            {"k": "equ", "nm": "KBC", "e": {"o": "+", "a": {"o": "n", "v": 0x60, "sty": "h"}, "b": {"o": "n", "v": 4}}}]
                    uses = lambda nm: [{"k": "ins", "mn": "MOV", "ops": [{"t": "r", "w": 8, "n": 1}, L(nm)]}, {"k": "data", "mn": "DW", "items": [{"t": "e", "e": {"o": "id", "nm": nm}}]}]
                    tw = None
                    tail = []
                a = R.add(pre + body + uses("MSGQ") + tail + [{"k": "label", "nm": "endp"}])
                if tw is not None:
                    b = R.add(pre + [x for x in body if x["k"] != "equ"] + uses(tw) + tail + [{"k": "label", "nm": "endp"}])
                else:
                    val = 0x60 if shape == "bare_alias_fwd" else 0x64
                    lit = lambda nm: None
                    def sub(u):
                        u = json.loads(json.dumps(u))
                        if u["k"] == "ins":
                            u["ops"] = [({"t": "i", "v": val, "sty": "h"} if o.get("nm") == "MSGQ" else o) for o in u["ops"]]
                        if u["k"] == "data":
                            u["items"] = [{"t": "e", "e": {"o": "n", "v": val, "sty": "h"}}]
                        if u["k"] == "resb":
                            u["e"] = {"o": "-", "a": {"o": "n", "v": val, "sty": "h"}, "b": {"o": "n", "v": 0x50}}
                        return u
                    b = R.add(pre + [sub(u) for u in uses("MSGQ")] + tail + [{"k": "label", "nm": "endp"}])
                R.rel("eq", ["C11"], a=b, b=a)
                nb += 1
    # constants on both sides of 2^31 / 2^32 (bit 31 set, 2^32, 2^62): the literal program against the program that names every
    # literal with an EQU, directly and through a chain; the values themselves are judged with the exact arithmetic of spec/Big.tla
    import c06
    wide = c06.gen_big(ctx, "d1")
    more = c06.gen_big(ctx, "d2n")
    rng.shuffle(more)
    wide += more[:300 if quick else 4000]
    for i in range(0, len(wide), 12):
        chunk = wide[i:i + 12]
        lit = [{"k": "org", "v": 0x7c00}] + [{"k": "datab", "mn": "DD", "e": t["e"], "defs": {}, "text": render.expr_min(t["e"])} for t in chunk]
        defs, body = {}, []
        for t in chunk:
            body.append(c06.named_big(t["e"], defs))
        chain = {}
        eq = [{"k": "org", "v": 0x7c00}]
        for nm, x in sorted(defs.items()):            # NAME EQU NAME_ ; NAME_ EQU literal  (defined before use, chain of two)
            eq.append({"k": "equb", "nm": nm + "_", "e": x})
            eq.append({"k": "equb", "nm": nm, "e": {"o": "id", "nm": nm + "_"}})
            chain[nm + "_"] = x
            chain[nm] = {"o": "id", "nm": nm + "_"}
        eq += [{"k": "datab", "mn": "DD", "e": e, "defs": dict(chain), "text": render.expr_min(e)} for e in body]
        a = R.add(lit + [{"k": "label", "nm": "endp"}])
        b = R.add(eq + [{"k": "label", "nm": "endp"}])
        R.rel("eq", ["C11"], a=a, b=b)
        nb += 1
    R.run()
    ctx.widen_tags = ["C05", "C06", "C01"]
    return relcheck.finish(ctx, "C11", R, None,
                           "seeded random programs x EQU abstractions enumerated by TLC (Gen_Variants.tla 'equ': every subset of <= 4 of the first 6 literal sites - immediates, data items, RESB counts, displacements - x chain depth 1..4 x body style direct/parenthesised/with its own arithmetic); "
                           "relation: output identical to the fully inlined program", ASSUME, extra={"base_programs": nb})
