# C11 - EQU names are transparent abbreviations.
import random

import progs
import relcheck
import flow
import variants

ASSUME = ["TLC evaluates the reference semantics (EQU = its defining expression, evaluated where it is defined) and the relation 'eq' correctly",
          "both variants are validated individually; EQU statements must own no bytes and must not move the location counter (checked at every p1 event)"]


def run(ctx):
    ctx.build()
    quick = ctx.tier == "quick"
    rng = random.Random(ctx.seed)
    cells = variants.gen(ctx, "equ")
    R = flow.Runner(ctx)
    nb = 0
    for bits in (16, 32):
        cases = progs.gen(ctx, 25 if quick else 250, length=14, nl=3, bits=bits)
        for c in cases:
            base = progs.complete(c, org=0x7c00, bits=bits)
            bid = R.add(base)
            nb += 1
            pick = rng.sample(cells, 10 if quick else 60)
            nprefix = 1 + (1 if bits == 32 else 0)
            for cell in pick:
                v = variants.abstract_equ(base, cell, nprefix)
                if v is None:
                    continue
                vid = R.add(v)
                R.rel("eq", ["C11"], a=bid, b=vid)
    R.run()
    return relcheck.finish(ctx, "C11", R, None,
                           "seeded random programs x EQU abstractions enumerated by TLC (Gen_Variants.tla 'equ': every subset of <= 4 of the first 6 literal sites - immediates, data items, RESB counts, displacements - x chain depth 1..4 x body style direct/parenthesised/with its own arithmetic); "
                           "relation: output identical to the fully inlined program", ASSUME, extra={"base_programs": nb})
