# C10 - output is deterministic and independent of history.
import json
import random

import flow
import progs
import relcheck
import render
from vlib import NCPU

ASSUME = ["History.tla: the sequential specification of an assemble call is the pure function Ref[p]; TLC enumerates the histories and checks the model invariant; the real results are compared with the reference by the trace spec (relation 'eq')",
          "Ref[p] is taken from a fresh worker process per program, run several times (the fresh runs must agree with each other)",
          "each history is executed inside one worker process (several histories share a process, which only adds history)"]

COFF_HDR = [{"k": "cfg", "mn": "FORMAT", "s": "WCOFF"}, {"k": "cfg", "mn": "INSTRSET", "s": '"i486p"'}, {"k": "bits", "v": 32}, {"k": "cfg", "mn": "FILE", "s": "hist.nas"}]


def pool(ctx):
    ps = []
    c16 = progs.gen(ctx, 3, length=16, nl=3, bits=16, seed=ctx.seed)
    c32 = progs.gen(ctx, 3, length=16, nl=3, bits=32, seed=ctx.seed + 1)
    ps.append(progs.complete(c16[0], org=0x7c00, bits=16))
    ps.append(progs.complete(c16[1], org=0xc200, bits=16))
    ps.append(progs.complete(c32[0], org=0x280000 if False else 0x1000, bits=32))
    # COFF objects with many GLOBAL names (gives map-iteration order a chance), long names, undefined names
    names = ["_f%02d" % i for i in range(30)] + ["_a_rather_long_global_name_%d" % i for i in range(4)]
    body = []
    for i, n in enumerate(names):
        body += [{"k": "label", "nm": n}, {"k": "ins", "mn": "MOV", "ops": [{"t": "r", "w": 32, "n": i % 8}, {"t": "r", "w": 32, "n": (i + 3) % 8}]}, {"k": "ins", "mn": "RET", "ops": []}]
    ps.append(COFF_HDR + [{"k": "extern", "names": ["_ext_c", "_ext_a", "_ext_b", "_a_long_external_symbol_name"]}, {"k": "global", "names": names[:17]}, {"k": "global", "names": names[17:] + ["_undefined_one", "_undef2"]}, {"k": "cfg", "mn": "SECTION", "s": ".text"}] + body)
    ps.append(COFF_HDR + [{"k": "global", "names": ["_io_hlt"]}, {"k": "cfg", "mn": "SECTION", "s": ".text"}, {"k": "label", "nm": "_io_hlt"}, {"k": "ins", "mn": "HLT", "ops": []}, {"k": "ins", "mn": "RET", "ops": []}])
    ps.append(progs.complete(c32[1], org=None, bits=32))
    # a program that fails (diagnosed) and one with EQU chains
    ps.append([{"k": "org", "v": 0x7c00}, {"k": "ins", "mn": "MOV", "ops": [{"t": "r", "w": 16, "n": 0}, {"t": "l", "nm": "nowhere_at_all", "add": 0}]}, {"k": "ins", "mn": "HLT", "ops": []}])
    ps.append(progs.complete(c16[2], org=0, bits=16))
    # the SAME statements under both modes (their sizes differ by mode), with labels after them that are referenced:
    # anything remembered per instruction text across assemblies shows up here
    both = []
    for j, (w, n) in enumerate([(32, 1), (16, 3), (32, 0), (16, 6), (32, 7)]):
        both.append({"k": "ins", "mn": "MOV", "ops": [{"t": "r", "w": w, "n": n}, {"t": "i", "v": 4660 + j, "sty": "h"}]})
        both.append({"k": "ins", "mn": "ADD", "ops": [{"t": "r", "w": w, "n": n}, {"t": "i", "v": 1000, "sty": "d"}]})
        both.append({"k": "label", "nm": "m%d" % j})
        both.append({"k": "br", "mn": "JMP", "tgt": {"t": "l", "nm": "m%d" % j, "add": 0}})
        both.append({"k": "ins", "mn": "MOV", "ops": [{"t": "r", "w": 16, "n": 6}, {"t": "l", "nm": "m%d" % j, "add": 0}]})
    # a program that refers to EQU constants many times (anything counted per reference across assemblies shows up quickly)
    eq = [{"k": "org", "v": 0x7c00}, {"k": "equ", "nm": "CYLS", "e": {"o": "n", "v": 10}}, {"k": "equ", "nm": "VRAM", "e": {"o": "n", "v": 0x0ff8, "sty": "h"}},
          {"k": "equ", "nm": "LEDS", "e": {"o": "+", "a": {"o": "id", "nm": "VRAM"}, "b": {"o": "n", "v": 1}}}]
    for j in range(30):
        eq.append({"k": "ins", "mn": "MOV", "ops": [{"t": "r", "w": 8, "n": j % 8}, {"t": "l", "nm": "CYLS", "add": 0}]})
        eq.append({"k": "ins", "mn": "MOV", "ops": [{"t": "m", "w": 0, "aw": 0, "b": -1, "x": -1, "sc": 1, "d": 0, "hd": 0, "lab": "LEDS"}, {"t": "r", "w": 8, "n": 0}]})
        eq.append({"k": "data", "mn": "DW", "items": [{"t": "e", "e": {"o": "*", "a": {"o": "id", "nm": "CYLS"}, "b": {"o": "n", "v": 512}}}]})
    ps.append(eq)
    # an EQU that is an alias of a label (not reducible to a constant when it is defined), used twice; and a program that defines
    # the same names as plain constants: whatever is remembered about a name must die with the assembly
    lab = lambda n: {"t": "l", "nm": n, "add": 0}
    ps.append([{"k": "org", "v": 0x7c00}, {"k": "equ", "nm": "TBL", "e": {"o": "id", "nm": "table"}}, {"k": "equ", "nm": "CYLS", "e": {"o": "id", "nm": "table"}},
               {"k": "ins", "mn": "MOV", "ops": [{"t": "r", "w": 16, "n": 3}, lab("TBL")]}, {"k": "ins", "mn": "MOV", "ops": [{"t": "r", "w": 16, "n": 6}, lab("TBL")]},
               {"k": "ins", "mn": "MOV", "ops": [{"t": "r", "w": 16, "n": 7}, lab("CYLS")]}, {"k": "ins", "mn": "HLT", "ops": []},
               {"k": "label", "nm": "table"}, {"k": "data", "mn": "DB", "items": [{"t": "e", "e": {"o": "n", "v": v}} for v in (1, 2, 3)]}])
    ps.append([{"k": "org", "v": 0x7c00}, {"k": "equ", "nm": "TBL", "e": {"o": "n", "v": 5}}, {"k": "equ", "nm": "table", "e": {"o": "n", "v": 7}},
               {"k": "ins", "mn": "MOV", "ops": [{"t": "r", "w": 8, "n": 0}, lab("TBL")]}, {"k": "ins", "mn": "MOV", "ops": [{"t": "r", "w": 8, "n": 1}, lab("table")]},
               {"k": "data", "mn": "DW", "items": [{"t": "e", "e": {"o": "*", "a": {"o": "id", "nm": "TBL"}, "b": {"o": "id", "nm": "table"}}}]}])
    ps.append([{"k": "org", "v": 0x7c00}] + both)
    ps.append([{"k": "org", "v": 0x7c00}, {"k": "bits", "v": 32}] + both)
    # the form classes of C14 (same mnemonic and operand TYPES, different forms: moffs / ModRM, index without base, imm8 / imm16 ...)
    # as two programs per mode that hold the same statements in opposite orders: whatever one assembly memoises per "kind of
    # statement" meets, in the next assembly, the statement of the same kind that needs the other form first
    import c14
    for bits, cls in sorted(c14.form_classes().items()):
        flat = [s_ for g in cls for s_ in g]
        pre = [{"k": "org", "v": 0x7c00}] + ([{"k": "bits", "v": 32}] if bits == 32 else [])
        ps.append(pre + flat)
        ps.append(pre + flat[::-1])
    return ps


def histories(ctx, nprog, maxlen):
    cfg = "CONSTANTS NProg = %d\n MaxLen = %d\nINIT Init\nNEXT Next\nINVARIANTS Inv_C10 Export\nCHECK_DEADLOCK FALSE\n" % (nprog, maxlen)
    out, st = ctx.tlc("History", cfg_text=cfg, workers=8, name="mc:History(len<=%d)" % maxlen, timeout=1800)
    hs = ctx.printed(out, "CASE")
    hs.sort(key=lambda h: json.dumps(h, sort_keys=True))
    return hs, st


def run(ctx):
    ctx.build()
    quick = ctx.tier == "quick"
    rng = random.Random(ctx.seed)
    P = pool(ctx)
    srcs = [render.program(p) for p in P]
    hs, mcst = histories(ctx, len(P), 2)
    if not quick:
        h3, mc3 = histories(ctx, len(P), 3)
        rng.shuffle(h3)
        hs += h3[:20000]
        mcst = mc3
    for _ in range(100 if quick else 400):      # long seeded histories
        n = 20
        seen = set()
        h = []
        for _i in range(n):
            p = rng.randrange(len(P))
            h.append({"p": p, "reuse": 1 if (p in seen and rng.random() < 0.6) else 0, "pre": rng.choice(["absent", "short", "long"])})
            seen.add(p)
        hs.append(h)
    R = flow.Runner(ctx)
    # reference: fresh process per program, 3 times
    ref = {}
    refjobs = []
    for rep in range(3):
        for pi, p in enumerate(P):
            cid = R.add(p, src=srcs[pi])
            ref.setdefault(pi, []).append(cid)
            refjobs.append([{"id": cid, "src": srcs[pi]}])
    for pi in ref:
        for other in ref[pi][1:]:
            R.rel("eq", ["C10"], a=ref[pi][0], b=other)
    res = {}
    for rj in refjobs:
        res.update(ctx.run_jobs(rj, sequential=True))
    from vlib import is_diagnosed
    for pi in ref:
        e = res[ref[pi][0]][-1]
        R.preamble.append({"e": "ref", "p": pi, "sha": e.get("sha", ""), "clean": not is_diagnosed(e), "status": e.get("status", "ok")})
    # histories
    nw = NCPU
    chunks = [[] for _ in range(nw)]
    ncalls = 0
    for hi, h in enumerate(hs):
        w = hi % nw
        for c in h:
            cid = R.add(P[c["p"]], src=srcs[c["p"]], tree="w%d_p%d" % (w, c["p"]), reuse=bool(c["reuse"]), pre=c["pre"], notrace=True, maxout=1)
            j = {"id": cid, "src": srcs[c["p"]], "tree": "w%d_p%d" % (w, c["p"]), "reuse": bool(c["reuse"]), "pre": c["pre"], "notrace": True, "maxout": 1}
            chunks[w].append(j)
            R.rel("ref", ["C10"], a=cid, p=c["p"])
            ncalls += 1
    res.update(ctx.run_jobs([j for ch in chunks for j in ch], chunks=chunks))
    R.results = res
    return relcheck.finish(ctx, "C10", R, None,
                           "pool of %d programs (flat 16/32-bit with labels and EQUs at several origins, WCOFF objects with 36 GLOBAL names incl. long and undefined ones, a failing program); TLC enumerates all histories of length <= %d over pool x reuse-parse-tree x destination-before in {absent, shorter garbage, longer garbage} (History.tla), "
                           "plus seeded histories of length 20; every call's outcome class and output must equal the fresh-process reference" % (len(P), 2 if quick else 3),
                           ASSUME, extra={"histories": len(hs), "calls": ncalls}, mcstats=mcst)
