# C17 - BITS selects the encoding mode for what follows it.
import json
import random

import flow
import report
import render
from findings import Findings
from vlib import is_diagnosed

ASSUME = ["TLC evaluates the ISA decoder and the reference semantics: every chunk must decode to its statement under the mode in force at that statement (model variable bits, default 16), and pass 1 must have run the statement in that mode",
          "instruction groups are drawn from forms whose 16- and 32-bit encodings differ, so the mode is observable in the bytes"]

R16 = {"t": "r", "w": 16}
R32 = {"t": "r", "w": 32}


def group(rng, k):
    """mode-observable instructions that the pinned tree encodes correctly in both modes when alone"""
    pool = [
        {"k": "ins", "mn": "MOV", "ops": [dict(R16, n=0), {"t": "i", "v": 1, "sty": "d"}]},
        {"k": "ins", "mn": "MOV", "ops": [dict(R32, n=3), {"t": "i", "v": 2, "sty": "d"}]},
        {"k": "ins", "mn": "ADD", "ops": [dict(R16, n=3), {"t": "i", "v": 4, "sty": "d"}]},
        {"k": "ins", "mn": "MOV", "ops": [dict(R32, n=1), dict(R32, n=3)]},
        {"k": "ins", "mn": "MOV", "ops": [dict(R16, n=2), dict(R16, n=6)]},
        {"k": "ins", "mn": "PUSH", "ops": [dict(R16, n=0)]},
        {"k": "ins", "mn": "POP", "ops": [dict(R32, n=5)]},
        {"k": "ins", "mn": "XOR", "ops": [dict(R32, n=0), dict(R32, n=0)]},
        {"k": "ins", "mn": "CMP", "ops": [dict(R16, n=1), {"t": "i", "v": 3, "sty": "d"}]},
        # far jumps: the offset of the pointer is 32 bits wide in both modes here (0x12345 needs it), prefixed with 66h in 16-bit code
        {"k": "far", "mn": "JMP", "seg": 8, "off": 0x12345, "kw": "", "sty": "h"},
        {"k": "far", "mn": "JMP", "seg": 16, "off": 0x28001b, "kw": "DWORD", "sty": "h"},
    ]
    return [json.loads(json.dumps(rng.choice(pool))) for _ in range(k)]


def item(name, j):
    if name == "comment":
        return {"k": "raw", "text": "; comment line [BITS 32] inside a comment", "mn": "", "emits": False, "skip": True}
    if name == "org":
        return {"k": "org", "v": 0x7c00}
    if name == "equ":
        return {"k": "equ", "nm": "K%d" % j, "e": {"o": "n", "v": 7}}
    if name == "instrset":
        return {"k": "cfg", "mn": "INSTRSET", "s": '"i486p"'}
    if name == "label":
        return {"k": "label", "nm": "lb%d" % j}
    if name == "data":
        return {"k": "data", "mn": "DB", "items": [{"t": "e", "e": {"o": "n", "v": 0x55}}, {"t": "e", "e": {"o": "n", "v": 0xAA}}]}
    if name == "format":
        return {"k": "cfg", "mn": "FORMAT", "s": "WCOFF"}
    if name == "global":
        return {"k": "global", "names": ["_entry"]}
    if name == "optimize":
        return {"k": "cfg", "mn": "OPTIMIZE", "s": "1"}
    raise ValueError(name)


def build(rng, c):
    st = []
    pre = [item(n, j) for j, n in enumerate(c["pre"])]
    pre = [p for p in pre if not p.get("skip")]          # (comments are added textually, see below)
    pos = min(c["pos"], len(pre))
    st += pre[:pos]
    if c["mode"]:
        st.append({"k": "bits", "v": c["mode"]})
    if "second" in c:
        pos2 = min(max(c["pos2"], pos), len(pre))
        st += pre[pos:pos2]
        st.append({"k": "bits", "v": c["second"]})
        st += pre[pos2:]
    else:
        st += pre[pos:]
    if any(s["k"] == "global" for s in st):
        st.append({"k": "label", "nm": "_entry"})
    st += group(rng, 3)
    st.append({"k": "label", "nm": "g0"})
    for gi, m in enumerate(c["groups"]):
        st.append({"k": "bits", "v": m})
        st += group(rng, 2)
        st.append({"k": "label", "nm": "g%d" % (gi + 1)})
    return st


def gen(ctx, part):
    cfg = 'CONSTANTS Part = "%s"\nINIT Init\nNEXT Next\nINVARIANT Emit\nCHECK_DEADLOCK FALSE\n' % part
    out, st = ctx.tlc("Gen_Bits", cfg_text=cfg, workers=4, name="gen:bits:" + part)
    cs = ctx.printed(out, "CASE")
    cs.sort(key=lambda c: json.dumps(c, sort_keys=True))
    return cs


def run(ctx):
    ctx.build()
    import c03
    mcst = c03.mc(ctx, 3 if ctx.tier == "quick" else 4)
    quick = ctx.tier == "quick"
    rng = random.Random(ctx.seed)
    place = gen(ctx, "place")
    sw = gen(ctx, "switch")
    tw = gen(ctx, "twice")
    tw = [c for c in tw if "data" not in c["pre"]]      # nothing that emits code between the two directives
    if quick:
        rng.shuffle(tw)
        tw = tw[:300]
    sw = sw + tw
    if quick:
        rng.shuffle(place)
        place = place[:500]
    R = flow.Runner(ctx)
    for c in place + sw:
        st = build(rng, c)
        src = render.program(st)
        if "comment" in c["pre"]:
            src = "; leading comment with [BITS 32] text\n" + src
        R.add(st, src=src)
    R.run()
    ver = ctx.validate("Trace_Asm", R.traces(), nproc=10)
    F = Findings()
    viol, known, other = flow.classify(ctx, ver, R, F, "C17")
    clean = sum(1 for c in R.cases if not is_diagnosed(R.end(c["id"])))
    cov = {"states": sum(s["distinct"] for s in ctx.tlc_stats), "transitions": sum(s["generated"] for s in ctx.tlc_stats),
           "traces_validated_against_impl": len(R.cases), "trace_events": ver["events"],
           "placement_programs": len(place), "mode_switch_programs": len(sw), "programs_without_diagnostic": clean,
           "statements_judged": sum(i["judged"] for i in ver["info"]),
           "evaluations": len(R.cases), "distinct_nontrivial": clean,
           "rule": "TLC enumerates (Gen_Bits.tla) every subset of <= 4 preamble items (comment, ORG, EQU, INSTRSET, label, DB, FORMAT WCOFF, GLOBAL, OPTIMIZE) x every position of the BITS directive among them x mode in {none,16,32}"
                   "%s, and programs with 1..3 further mode switches between instruction groups (labels after each group); instructions are mode-observable" % (" (quick: seeded sample of 500)" if quick else ""),
           "samples": [R.cases[i]["src"] for i in (0, len(place), len(R.cases) - 1)], "model_checking": "MC_Asm: Inv_C17 (every instruction chunk denotes its statement under the mode in force at that statement) holds in all %d states of all programs of length <= %d over a 15-statement alphabet" % (mcst["distinct"], 3 if ctx.tier == "quick" else 4), "tlc_runs": ctx.tlc_stats[:4], "exhaustive": not quick}
    return report.finish(ctx, "C17", viol, known, other, R, cov, ASSUME)
