# Abstract statement (JSON from the TLA+ generator specs) -> NASK source text.
# Fixed templates; part of the trusted base (DESIGN.md 2.8).  The canonical layout is one
# statement per line, one TAB of indentation for non-label statements, ", " between operands.

R8 = ["AL", "CL", "DL", "BL", "AH", "CH", "DH", "BH"]
R16 = ["AX", "CX", "DX", "BX", "SP", "BP", "SI", "DI"]
R32 = ["EAX", "ECX", "EDX", "EBX", "ESP", "EBP", "ESI", "EDI"]
SREG = ["ES", "CS", "SS", "DS", "FS", "GS"]
SIZEKWN = {0: "", 8: "BYTE", 16: "WORD", 32: "DWORD"}


def sizekw(w):
    return (SIZEKWN[w] + LAY["kwsp"]) if w else ""


# layout (C12): gaps the grammar permits; canonical values below
CANON = {"ind": "\t", "sep": "\t", "comma": ", ", "brk": "", "opsp": "", "trail": "", "cmt": "", "cmtsp": " ", "own": 0, "blank": 0,
         "eol": "\n", "final": 1, "kwsp": " "}
LAY = dict(CANON)


def num(v, sty="d"):
    """Render int32 value v.  Styles: d decimal (negative with '-'), h hex of v mod 2^32,
    x hex of |v| with sign."""
    if sty == "h":
        return "0x%x" % (v & 0xFFFFFFFF)
    if sty == "H":
        return "0X%X" % (v & 0xFFFFFFFF)
    if sty == "z":          # zero-padded decimal (still decimal in NASK: 010 is ten)
        return ("-0%d" % -v) if v < 0 else ("0%d" % v)
    if sty == "h4":
        return "0x%04x" % (v & 0xFFFFFFFF)
    if sty == "x":
        return ("-0x%x" % -v) if v < 0 else ("0x%x" % v)
    return str(v)


PREC = {"+": 1, "-": 1, "*": 2, "/": 2, "%": 2}


def bigval(e):
    v = sum(d * 10000 ** i for i, d in enumerate(e["mag"]))
    return -v if e.get("neg") else v


def bignum(e):
    v = bigval(e)
    if e.get("sty", "h") == "d":
        return str(v)
    return ("-0x%x" % -v) if v < 0 else ("0x%x" % v)


def expr_min(e, redundant=False, sp=""):
    """Render a tree with the parentheses the usual rules require (and, optionally, redundant ones)."""
    o = e["o"]
    if o == "nb":
        return bignum(e)
    if o == "n":
        return num(e["v"], e.get("sty", "d"))
    if o == "id":
        return e["nm"]
    if o == "$":
        return "$"
    if o == "par":
        return "(" + expr_min(e["a"], redundant, sp) + ")"
    if o == "neg":
        return "-" + expr_min(e["a"], redundant, sp)

    def side(ch, right):
        t = expr_min(ch, redundant, sp)
        if ch["o"] in PREC:
            if PREC[ch["o"]] < PREC[o] or (right and PREC[ch["o"]] == PREC[o]) or redundant:
                return "(" + t + ")"
        return t
    return side(e["a"], False) + sp + o + sp + side(e["b"], True)


def expr(e):
    o = e["o"]
    if o == "nb":
        return bignum(e)
    if o == "n":
        return num(e["v"], e.get("sty", "d"))
    if o == "id":
        return e["nm"]
    if o == "$":
        return "$"
    if o == "par":
        return "(" + expr(e["a"]) + ")"
    if o == "neg":
        return "-" + expr(e["a"])
    sp = e.get("sp", LAY["opsp"])
    return expr(e["a"]) + sp + o + sp + expr(e["b"])


def reg(o):
    return {8: R8, 16: R16, 32: R32}[o["w"]][o["n"]]


def mem(o):
    aw = o.get("aw", 0)
    regs = R16 if aw == 16 else R32
    parts = []
    if o.get("b", -1) != -1:
        parts.append(regs[o["b"]])
    if o.get("x", -1) != -1:
        if o.get("sc", 1) != 1 or o.get("showsc", 0):
            parts.append("%s*%d" % (regs[o["x"]], o["sc"]))
        else:
            parts.append(regs[o["x"]])
    plus = LAY["opsp"] + "+" + LAY["opsp"]
    minus = LAY["opsp"] + "-" + LAY["opsp"]
    s = plus.join(parts)
    lab = o.get("lab", "")
    if lab:
        s = (s + plus if s else "") + lab
    if "dx" in o:
        return sizekw(o.get("w", 0)) + "[" + LAY["brk"] + (s + plus if s else "") + (o.get("dxtext") or expr(o["dx"])) + LAY["brk"] + "]"
    d = o.get("d", 0)
    hd = o.get("hd", 1 if (d != 0 or not s) else 0)
    if hd:
        if not s:
            s = num(d, o.get("sty", "d"))
        elif d < 0:
            s += minus + num(-d, o.get("sty", "d")) if d != -2147483648 else plus + num(d, "h")
        else:
            s += plus + num(d, o.get("sty", "d"))
    return sizekw(o.get("w", 0)) + "[" + LAY["brk"] + s + LAY["brk"] + "]"


def operand(o):
    t = o["t"]
    if t == "r":
        return reg(o)
    if t == "s":
        return SREG[o["n"]]
    if t == "c":
        return "CR%d" % o["n"]
    if t == "i":
        return num(o["v"], o.get("sty", "d"))
    if t == "e":
        return o.get("text") or expr(o["e"])
    if t == "l":
        a = o.get("add", 0)
        return o["nm"] + (("+%d" % a) if a > 0 else ("%d" % a) if a < 0 else "")
    if t == "m":
        return mem(o)
    if t == "txt":
        return o["s"]
    raise ValueError("operand " + repr(o))


def string_lit(b):
    try:                      # the bytes of a string are the UTF-8 bytes of the source text (that is what gosk emits for it)
        s = bytes(b).decode("utf-8")
    except UnicodeDecodeError:
        s = bytes(b).decode("latin-1")
    q = '"' if '"' not in s else "'"
    return q + s + q


def stmt(s):
    k = s["k"]
    if k == "label":
        return s["nm"] + ":"
    if k == "equ":
        return s["nm"] + LAY["sep"] + "EQU" + LAY["sep"] + (s.get("text") or expr(s["e"]))
    if k == "equb":
        return s["nm"] + LAY["sep"] + "EQU" + LAY["sep"] + (s.get("text") or expr_min(s["e"]))
    if k == "datab":
        return LAY["ind"] + s["mn"] + LAY["sep"] + (s.get("text") or expr_min(s["e"]))
    if k == "org":
        return LAY["ind"] + "ORG" + LAY["sep"] + num(s["v"], s.get("sty", "h"))
    if k == "bits":
        return "[BITS %d]" % s["v"]
    if k == "cfg":
        if s["mn"] in ("FORMAT", "FILE"):
            return '[%s "%s"]' % (s["mn"], s["s"])
        return "[%s %s]" % (s["mn"], s["s"])
    if k == "global":
        return LAY["ind"] + "GLOBAL" + LAY["sep"] + LAY["comma"].join(s["names"])
    if k == "extern":
        return LAY["ind"] + "EXTERN" + LAY["sep"] + LAY["comma"].join(s["names"])
    if k == "data":
        items = []
        for it in s["items"]:
            items.append(string_lit(it["b"]) if it["t"] == "s" else (it.get("text") or expr(it["e"])))
        return LAY["ind"] + s["mn"] + LAY["sep"] + LAY["comma"].join(items)
    if k == "resb":
        return LAY["ind"] + "RESB" + LAY["sep"] + (s.get("text") or expr(s["e"]))
    if k == "alignb":
        return LAY["ind"] + "ALIGNB" + LAY["sep"] + "%d" % s["v"]
    if k == "ins":
        if not s["ops"]:
            return LAY["ind"] + s["mn"]
        return LAY["ind"] + s["mn"] + LAY["sep"] + LAY["comma"].join(operand(o) for o in s["ops"])
    if k == "br":
        t = s["tgt"]
        if t["t"] == "n":
            return LAY["ind"] + s["mn"] + LAY["sep"] + num(t["v"], t.get("sty", "h"))
        a = t.get("add", 0)
        return LAY["ind"] + s["mn"] + LAY["sep"] + t["nm"] + (("+%d" % a) if a > 0 else ("%d" % a) if a < 0 else "")
    if k == "far":
        return LAY["ind"] + s["mn"] + LAY["sep"] + "%s%d:%s" % ((s.get("kw", "") + (LAY["kwsp"] or " ")) if s.get("kw") else "", s["seg"],
                                                               s["offnm"] if s.get("offnm") else num(s["off"], s.get("sty", "d")))
    if k == "raw":
        return s["text"]
    raise ValueError("stmt " + repr(s))


def program(stmts, eol="\n", layout=None):
    """Render a program.  layout (C12) overrides the canonical gaps; per-statement variation is obtained by
    passing a list of layouts (one per statement)."""
    global LAY
    if layout is None:
        return eol.join(stmt(s) for s in stmts) + eol
    out = []
    n = len(stmts)
    try:
        for i, s in enumerate(stmts):
            lay = dict(CANON)
            lay.update(layout[i % len(layout)] if isinstance(layout, list) else layout)
            LAY = lay
            e = lay["eol"]
            if lay["own"]:
                out.append(lay["ind"] + "; own-line comment, with [brackets] and 'quotes'" + e)
            line = stmt(s) + lay["trail"]
            if lay["cmt"]:
                line += (lay.get("cmtsp", " ") if not lay["trail"] else "") + lay["cmt"]
            last = i == n - 1
            if last and not lay["final"] and s["k"] != "label":
                out.append(line)
            else:
                out.append(line + e + e * lay["blank"])
    finally:
        LAY = dict(CANON)
    return "".join(out)


# --------------------------------------------------------------------------------------------
# normalisation of abstract statements before they enter a trace (fixed field sets for TLC)
def norm_operand(o):
    o = dict(o)
    t = o["t"]
    if t == "m":
        o.setdefault("w", 0)
        o.setdefault("aw", 0)
        o.setdefault("b", -1)
        o.setdefault("x", -1)
        o.setdefault("sc", 1)
        o.setdefault("d", 0)
        o.setdefault("lab", "")
    if t == "l":
        o.setdefault("add", 0)
    if t == "i":
        o.setdefault("sty", "d")
    if t == "e":
        o = {"t": "e", "e": norm_expr(o["e"])}
    if t == "m" and "dx" in o:
        o["dx"] = norm_expr(o["dx"])
        o.pop("dxtext", None)
    for junk in ("hd", "showsc") + (("sty",) if t != "i" else ()):
        o.pop(junk, None)
    return o


def norm_expr(e):
    e = {k: v for k, v in e.items() if k not in ("sty", "sp")}
    for f in ("a", "b"):
        if f in e:
            e[f] = norm_expr(e[f])
    return e


def norm_stmt(s):
    s = dict(s)
    s.pop("sty", None)
    s.pop("text", None)
    k = s["k"]
    if k == "ins":
        s["ops"] = [norm_operand(o) for o in s["ops"]]
    if k == "br":
        t = dict(s["tgt"])
        t.pop("sty", None)
        if t["t"] == "l":
            t.setdefault("add", 0)
        s["tgt"] = t
    if k in ("equ", "resb"):
        s["e"] = norm_expr(s["e"])
    if k == "data":
        s["items"] = [({"t": "s", "b": it["b"]} if it["t"] == "s" else {"t": "e", "e": norm_expr(it["e"])}) for it in s["items"]]
    if k == "equb":
        s = {"k": "equb", "nm": s["nm"], "e": norm_expr(s["e"])}
    if k == "datab":
        s = {"k": "datab", "mn": s["mn"], "e": norm_expr(s["e"]), "defs": {n: norm_expr(x) for n, x in s.get("defs", {}).items()}}
    if k == "raw":
        s = {"k": "raw", "mn": s["mn"], "emits": bool(s.get("emits", True))}
    if k == "far":
        s.pop("kw", None)
        s.setdefault("offnm", "")       # the offset may be a label name instead of a number
        s.setdefault("off", 0)
    return s
