# Used ONLY by bin/learn (never by a check): attributes an unexplained rejection observed on the
# pinned tree to one of the named defect mechanisms of known_findings.jsonl, so that its exact
# (input, observation) pair can be listed in that finding's table after review.
def shape(st):
    if not st or "ops" not in st:
        return []
    r = []
    for o in st["ops"]:
        if o["t"] == "r":
            r.append("r%d" % o["w"])
        elif o["t"] == "m":
            r.append("m")
        else:
            r.append(o["t"])
    return r


def mems(st):
    return [o for o in st.get("ops", []) if o["t"] == "m"] if st else []


def classify(r, st, bits):
    why = r.get("why", "")
    tags = r.get("tags", [])
    k = st["k"] if st else ""
    mn = st.get("mn", "") if st else ""
    sh = shape(st)
    obs = r.get("obs") or []
    if k == "ins" and any(o["t"] == "m" and o.get("lab") and not str(o.get("lab")).startswith("DQ") for o in st["ops"]):
        return "D_UndefinedIsZero"       # a label inside brackets is never resolved: displacement 0
    if "undefined" in why:
        return "D_UndefinedIsZero"
    if k == "ins" and not st["ops"]:
        return "D_NoOperandTable"
    if k == "ins" and st["ops"] and r.get("at") == "cg" and len(obs) == 1 and mn not in ("PUSH", "POP", "INC", "DEC", "DIV", "MUL", "IDIV"):
        return "D_IgnoredOperands"
    if k == "ins" and mn in ("RET", "RETF", "RETN", "HLT", "NOP") and st["ops"]:
        return "D_IgnoredOperands"
    if k == "ins" and bits == 16 and any(o["t"] == "m" and o.get("aw", 0) == 0 and not (-32768 <= o.get("d", 0) <= 65535) for o in st["ops"]):
        return "D_AbsTrunc16"
    if k == "ins" and mn in ("DIV", "MUL", "IDIV") :
        return "D_Group3"
    if k == "br" and (st["tgt"].get("nm") in ("nowhere", "_gund") or str(st["tgt"].get("nm", "")).startswith("FWD")):
        return "D_UndefinedIsZero"
    if k == "ins" and mn == "MOV" and sh == ["s", "s"]:
        return "D_SregAsGpr"
    if k == "ins" and (mn in ("JMP", "CALL") or (mn.startswith("J") and len(mn) <= 5)):
        return "D_UndefinedIsZero"      # a register / control register / memory operand of a branch is taken for an unknown label
    if k in ("br",):
        if "C17" in tags:
            return "D_BitsGlobal"
        return "D_JmpSize"
    if "C17" in tags:
        return "D_BitsGlobal"
    if why.startswith("pass-1 size"):
        return "D_SizeEstimate"
    if k == "ins" and mn == "MOV" and "s" in sh and "m" in sh:
        return "D_MovMemSreg"
    if k == "ins" and "s" in sh and mn not in ("PUSH", "POP") and not (mn == "MOV" and set(sh) <= {"s", "r16", "r32", "m"}):
        return "D_SregAsGpr"
    if k == "ins" and mn in ("RET", "RETN", "RETF") and st["ops"]:
        return "D_IgnoredOperands"
    if k == "ins" and mn == "PUSH" and sh == ["i"]:
        return "D_PushImm"
    m = mems(st)
    if m and "C02" in tags:
        mm = m[0]
        if mm.get("aw") == 16 and bits == 32:
            return "D_Addr16In32"
        if mm.get("aw") == 32 and mm.get("b", -1) == -1 and mm.get("x", -1) != -1:
            return "D_IndexNoBase"
        if mm.get("aw") == 32 and mm.get("b") == 5 and mm.get("x", -1) != -1 and mm.get("d", 0) == 0:
            return "D_EbpIndexNoDisp"
        if mm.get("aw") == 32 and mm.get("x", -1) == 0 and mm.get("b") == 0 and mm.get("sc", 1) == 1:
            return "D_SibZeroDropped"
    if k == "ins" and ("C01" in tags or "C18" in tags):
        return "D_Prefix66"
    return None
