# Shared body of the relational checks (C11 C12 C14 C15 C16): base programs x transformations,
# every variant validated individually by the trace spec + a `rel` event judged by TLC.
import flow
import report
from findings import Findings
from vlib import is_diagnosed


def mc_rel(ctx, quick):
    """Spec-level check: the relational theorems Thm_C11/C14/C15/C16 of spec/AsmRel.tla over all programs up to MaxLen."""
    n = 3 if quick else 4
    cfg = "CONSTANTS\n  Alphabet <- AlphabetRel\n  MaxLen = %d\n  Dev = {}\nSPECIFICATION SpecBuild\nINVARIANTS Thm_C15 Thm_C16 Thm_C14 Thm_C11\nCHECK_DEADLOCK FALSE\n" % n
    out, st = ctx.tlc("MC_AsmRel", cfg_text=cfg, workers=8, name="mc:AsmRel(len<=%d)" % n, timeout=1800)
    return st


def finish(ctx, prop, R, groups, rule, assume, extra=None, nproc=10, mcstats=None):
    if mcstats is None and prop in ("C11", "C14", "C15", "C16"):
        mcstats = mc_rel(ctx, ctx.tier == "quick")
        extra = dict(extra or {})
        extra["model_checking"] = "MC_AsmRel: Thm_%s (and the other relational theorems) hold for all %d programs of length <= %d over a 12-statement alphabet; Outs(transform(p)) related to Outs(p) over ALL feasible runs" % (prop, mcstats["distinct"], 3 if ctx.tier == "quick" else 4)
    ver = ctx.validate("Trace_Asm", R.traces(), nproc=nproc)
    ver["rej"] += getattr(ctx, "extra_rej", [])
    widen = getattr(ctx, "widen_tags", None)     # e.g. C11: a data/operand value rejection in an EQU program is a C11 rejection
    if widen:
        for r in ver["rej"]:
            if prop not in r.get("tags", []) and set(widen) & set(r.get("tags", [])) and not r.get("dev"):
                r["tags"] = list(r["tags"]) + [prop]
    F = Findings()
    viol, known, other = flow.classify(ctx, ver, R, F, prop)
    clean = sum(1 for c in R.cases if not is_diagnosed(R.end(c["id"])))
    relrej = [r for r in ver["rej"] if r.get("at") == "rel"]
    st = mcstats or {}
    cov = {
        "states": st.get("distinct", 0) + sum(s["distinct"] for s in ctx.tlc_stats if s["name"].startswith("gen:")),
        "transitions": st.get("generated", 0) + sum(s["generated"] for s in ctx.tlc_stats if s["name"].startswith("gen:")),
        "traces_validated_against_impl": len(R.cases), "trace_events": ver["events"],
        "relations_checked": len(R.rels), "relations_rejected": len(relrej),
        "programs_without_diagnostic": clean,
        "evaluations": len(R.cases), "distinct_nontrivial": min(clean, len({c["src"] for c in R.cases})),
        "rule": rule,
        "samples": [R.cases[i]["src"] for i in sorted({0, min(1, len(R.cases) - 1), len(R.cases) - 1})],
        "tlc_runs": ctx.tlc_stats[:8], "exhaustive": False,
    }
    cov["states"] = max(1, cov["states"])
    cov["transitions"] = max(1, cov["transitions"])
    if extra:
        cov.update(extra)
    return report.finish(ctx, prop, viol, known, other, R, cov, assume)
