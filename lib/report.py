# Final verdict protocol shared by all checks.
import json
import os
import sys

import render
from vlib import log


def finish(ctx, prop, viol, known, other, runner, coverage, assumptions, level="model_checking"):
    """Print KNOWN-FINDING / VIOLATION lines, write replay files and evidence; return exit code."""
    byid = {c["id"]: c for c in runner.cases} if runner else {}
    seenk = {}
    for kf, r in known:
        seenk.setdefault(kf["id"], [kf, 0])
        seenk[kf["id"]][1] += 1
    for fid, (kf, n) in sorted(seenk.items()):
        props = kf.get("properties", [])
        p = prop if prop in props else (props[0] if props else prop)
        print("KNOWN-FINDING: property=%s %s %s (%d cases in this run)" % (p, fid, kf.get("what", ""), n))
    if os.environ.get("VERIF_DUMP_KNOWN"):      # maintenance: which inputs does each listed finding explain in this run (for reading the tables)
        from findings import case_key
        with open(os.environ["VERIF_DUMP_KNOWN"], "a") as f:
            for kf, r in known:
                f.write(json.dumps({"finding": kf["id"], "key": case_key(r, byid.get(r.get("id"))), "obs": r.get("obs"), "psz": r.get("psz"), "tags": r.get("tags")}) + "\n")
    if other:
        agg = {}
        for r in other:
            k = (",".join(r.get("tags", [])), r.get("why", ""))
            agg[k] = agg.get(k, 0) + 1
        for (t, w), n in sorted(agg.items()):
            log("note: %d rejection(s) tagged %s (%s) outside this property's claim" % (n, t, w))
    if os.environ.get("VERIF_LEARN"):
        # maintenance mode (never used by a registered command): dump unexplained rejections for bin/learn
        from findings import entry_hash, case_key
        import mechanisms
        with open(os.environ["VERIF_LEARN"], "a") as f:
            for r in list(viol) + list(other):
                c = byid.get(r.get("id"))
                st = c["stmts"][r["i"] - 1] if c and 0 < r.get("i", 0) <= len(c["stmts"]) else None
                f.write(json.dumps({"h": entry_hash(r, c), "key": case_key(r, c), "mech": mechanisms.classify(r, st, r.get("bits", 0)),
                                    "tags": r.get("tags"), "why": r.get("why"), "obs": r.get("obs"), "psz": r.get("psz"),
                                    "prop": prop}) + "\n")
        log("learn mode: %d unexplained rejections dumped" % (len(viol) + len(other)))
        viol = []
    rc = 0
    shown = 0
    for r in viol:
        c = byid.get(r.get("id"))
        rp = ctx.write_replay([prop, r.get("why"), c["src"] if c else "", r.get("i")],
                              {"property": prop, "rejection": r, "source": c["src"] if c else None, "stmts": c["stmts"] if c else None, "job": c["job"] if c else None,
                               "statement": render.stmt(c["stmts"][r["i"] - 1]) if c and 0 < r.get("i", 0) <= len(c["stmts"]) else None,
                               "related_sources": [byid[x]["src"] for x in r.get("obs", []) if r.get("at") == "rel" and isinstance(x, int) and x in byid][:4],
                               "how": "assemble `source` with gosk; compare the bytes of `statement` with the rejection record (for a relation: the sources of the related runs are in related_sources)"})
        if shown < 20:
            print("VIOLATION property=%s replay=%s" % (prop, rp))
            log("  ", json.dumps(r)[:400])
        shown += 1
        rc = 1
    if shown > 20:
        log("  ... %d further violations" % (shown - 20))
    coverage = dict(coverage)
    coverage["known_findings_reproduced"] = {fid: n for fid, (kf, n) in seenk.items()}
    coverage["rejections_of_other_properties"] = len(other)
    ctx.write_evidence(level, coverage, assumptions, len(viol))
    # vacuity guard: the properties speak about statements gosk ACCEPTS.  If the tree under test reports a diagnostic for every one
    # of the programs (e.g. it logs an error for every statement while still assembling it), nothing was judged and "no violation"
    # would mean nothing: that is a failure of the check to decide (exit 2), not a verdict.  Never the case on the unchanged tree.
    if rc == 0 and runner is not None and getattr(runner, "cases", None) and getattr(runner, "results", None):
        from vlib import is_diagnosed, Machinery
        hooked = [c for c in runner.cases if c["id"] in runner.results and not c["job"].get("notrace")]
        if len(hooked) >= 20 and all(is_diagnosed(runner.results[c["id"]][-1]) for c in hooked):
            raise Machinery("vacuous run: every one of the %d programs ended with a diagnostic on this tree, so no accepted statement was judged" % len(hooked))
    return rc
