# Instruction-cell universes (Gen_X86.tla) -> programs -> real gosk -> TLC trace validation.
import json
import random

import flow
from vlib import log


def gen(ctx, part, workers=4):
    cfg = 'CONSTANTS Part = "%s"\nINIT Init\nNEXT Next\nINVARIANT Emit\nCHECK_DEADLOCK FALSE\n' % part
    out, st = ctx.tlc("Gen_X86", cfg_text=cfg, workers=workers, name="gen:x86:" + part, timeout=900)
    cases = ctx.printed(out, "CASE")
    cases.sort(key=lambda c: json.dumps(c, sort_keys=True))
    return cases


def grammar_opcodes():
    """The mnemonics the grammar accepts (rule `Opcode` of /repo/internal/gen/grammar.peg)."""
    import os, re
    from vlib import REPO, Machinery
    g = open(os.path.join(REPO, "internal", "gen", "grammar.peg"), encoding="utf-8").read()
    m = re.search(r"^Opcode\s*=\s*(.*?);", g, re.S | re.M)
    if not m:
        raise Machinery("cannot find the Opcode rule in grammar.peg")
    return re.findall(r'"([A-Z0-9]+)"', m.group(1))


def run_cells(ctx, cells_by_bits, batch=40, org=0x7c00, R=None, preambles=((),)):
    """cells_by_bits: {16: [stmt...], 32: [stmt...]}.  Each batch: ORG, [BITS], (label, cell)*, end label.
    A batch that does not parse is re-run cell by cell (the offending cell is then isolated)."""
    R = R or flow.Runner(ctx)
    plan = []
    # cells that mention the label lbl0 get it defined 200 bytes into the image, and are run at two origins
    lbl = [{"k": "resb", "e": {"o": "n", "v": 200}}, {"k": "label", "nm": "lbl0"}, {"k": "data", "mn": "DW", "items": [{"t": "e", "e": {"o": "n", "v": 1}}]}]
    for bits, cells in cells_by_bits.items():
        plain = [c for c in cells if '"lbl0"' not in json.dumps(c)]
        withl = [c for c in cells if '"lbl0"' in json.dumps(c)]
        for pre in preambles:       # (directives in front of the cells, e.g. [INSTRSET "i486p"]: they must not change any encoding)
            for stmts, where in flow.batch_cells(plain, batch, org=org, bits=(32 if bits == 32 else None), prefix=list(pre)):
                plan.append((R.add(stmts), bits, stmts, where))
            for o in (org, 0xc200, 0):
                for stmts, where in flow.batch_cells(withl, batch, org=o, bits=(32 if bits == 32 else None), prefix=list(pre) + lbl):
                    plan.append((R.add(stmts), bits, stmts, where))
    R.run()
    redo = []
    for cid, bits, stmts, where in plan:
        if R.end(cid).get("status") == "parse" and len(where) > 1:
            for (pos, n) in where:
                redo.append((bits, stmts[pos:pos + n]))
    if redo:
        first = R._next
        for bits, cs in redo:
            pre = [{"k": "org", "v": org}] + ([{"k": "bits", "v": 32}] if bits == 32 else [])
            R.add(pre + [{"k": "label", "nm": "cl0"}] + cs + [{"k": "label", "nm": "clend"}])
        jobs = [{"id": c["id"], "src": c["src"]} for c in R.cases if c["id"] >= first]
        R.results.update(ctx.run_jobs(jobs))
    return R
