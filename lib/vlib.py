# Shared machinery for the gosk verification checks (standard library only).
#
#   build worker / CLI from /repo's working tree  ->  run TLC generator specs (direction A)
#   -> render abstract cases to NASK text -> execute on the real code (worker pool)
#   -> write ndjson traces -> validate with TLC trace specs (direction B) -> verdicts, evidence.
#
# Exit codes used by callers: 0 held, 1 violation (VIOLATION line printed), 2 machinery failure.
import hashlib
import json
import os
import re
import shutil
import subprocess
import sys
import tempfile
import time

VERIF = os.path.dirname(os.path.dirname(os.path.abspath(__file__)))
REPO = os.environ.get("GOSK_REPO", "/repo")
SPEC = os.path.join(VERIF, "spec")
NCPU = max(2, min(16, os.cpu_count() or 4))

GOENV = dict(os.environ, GOFLAGS="-mod=mod", GOPROXY="off", GOSUMDB="off", GOTOOLCHAIN="local",
             CGO_ENABLED="0")


class Machinery(Exception):
    """Failure of the verification machinery itself (exit 2, never a verdict)."""


def log(*a):
    print(*a, file=sys.stderr, flush=True)


class Ctx:
    def __init__(self, prop, tier="quick", seed=None):
        self.prop = prop
        self.tier = tier
        if seed is None:
            seed = int(os.environ.get("VERIF_SEED", "1") or 1)
        self.seed = seed
        self.t0 = time.time()
        self.scratch = tempfile.mkdtemp(prefix="goskverif_%s_" % prop)
        self.worker = None
        self.cli = None
        self.tlc_stats = []      # (name, generated, distinct, seconds)
        self.notes = []
        self._md = 0

    def cleanup(self):
        shutil.rmtree(self.scratch, ignore_errors=True)

    # ------------------------------------------------------------------ build
    def build(self, need_cli=False):
        t = time.time()
        ov = os.path.join(self.scratch, "overlay.json")
        wsrc = os.path.join(VERIF, "harness", "worker", "main.go")
        with open(ov, "w") as f:
            json.dump({"Replace": {os.path.join(REPO, "cmd", "verifworker", "main.go"): wsrc}}, f)
        self.worker = os.path.join(self.scratch, "worker")
        env = dict(GOENV, GOCACHE=os.environ.get("GOCACHE", os.path.expanduser("~/.cache/go-build")))
        r = subprocess.run(["go", "build", "-tags", "verif", "-overlay", ov, "-o", self.worker,
                            "./cmd/verifworker"], cwd=REPO, env=env, capture_output=True, text=True)
        if r.returncode != 0:
            raise Machinery("worker build failed:\n" + r.stdout + r.stderr)
        if need_cli:
            self.cli = os.path.join(self.scratch, "gosk")
            r = subprocess.run(["go", "build", "-o", self.cli, "./cmd/gosk"], cwd=REPO, env=env,
                               capture_output=True, text=True)
            if r.returncode != 0:
                raise Machinery("cli build failed:\n" + r.stdout + r.stderr)
        log("[build] %.1fs" % (time.time() - t))

    # ------------------------------------------------------------------ TLC
    def _specdir(self):
        d = os.path.join(self.scratch, "spec")
        if not os.path.isdir(d):
            shutil.copytree(SPEC, d)
        return d

    def tlc(self, module, cfg=None, env=None, workers=None, timeout=1800, extra=(), cfg_text=None,
            name=None, ok_codes=(0,), heap=None):
        """Run TLC on spec/<module>.tla with <cfg> (file name in spec/ or literal text).
        Returns (stdout, stats) ; raises Machinery on tool failure."""
        d = self._specdir()
        self._md += 1
        md = os.path.join(self.scratch, "md%d" % self._md)
        if cfg_text is not None:
            cfg = "%s_%d.cfg" % (module, self._md)
            with open(os.path.join(d, cfg), "w") as f:
                f.write(cfg_text)
        elif cfg is None:
            cfg = module + ".cfg"
        cmd = ["java", "-XX:+UseParallelGC", "-Xss64m"]
        if heap:
            cmd.append("-Xmx" + heap)
        cmd += ["-cp", "/opt/veriftools/tla/tla2tools.jar:/opt/veriftools/tla/CommunityModules-deps.jar",
                "tlc2.TLC", "-workers", str(workers or 1), "-metadir", md, "-config", cfg]
        cmd += list(extra) + [module + ".tla"]
        e = dict(os.environ)
        e.pop("JAVA_TOOL_OPTIONS", None)
        if env:
            e.update({k: str(v) for k, v in env.items()})
        t = time.time()
        try:
            r = subprocess.run(cmd, cwd=d, env=e, capture_output=True, text=True, timeout=timeout)
        except subprocess.TimeoutExpired:
            raise Machinery("TLC timeout on %s/%s" % (module, cfg))
        finally:
            shutil.rmtree(md, ignore_errors=True)
        dt = time.time() - t
        outp = r.stdout
        m = re.search(r"(\d+) states generated, (\d+) distinct states found", outp)
        st = {"name": name or (module + ":" + cfg), "generated": int(m.group(1)) if m else 0,
              "distinct": int(m.group(2)) if m else 0, "seconds": round(dt, 2), "rc": r.returncode}
        self.tlc_stats.append(st)
        if r.returncode not in ok_codes:
            tail = "\n".join(outp.splitlines()[-40:])
            raise Machinery("TLC failed rc=%d on %s/%s\n%s\n%s" % (r.returncode, module, cfg, tail, r.stderr[-2000:]))
        return outp, st

    def apalache(self, module, inv, init="Init", nxt="Next", length=0, timeout=600):
        """Symbolic check of an invariant with Apalache (all values, not TLC's bounded sets)."""
        d = os.path.join(self.scratch, "apalache_%s" % module)
        os.makedirs(d, exist_ok=True)
        shutil.copy(os.path.join(SPEC, module + ".tla"), d)
        t = time.time()
        try:
            r = subprocess.run(["apalache-mc", "check", "--init=" + init, "--next=" + nxt, "--inv=" + inv, "--length=%d" % length,
                                "--out-dir=" + os.path.join(d, "out"), module + ".tla"], cwd=d, capture_output=True, text=True, timeout=timeout)
        except subprocess.TimeoutExpired:
            raise Machinery("apalache timeout on " + module)
        ok = "EXITCODE: OK" in r.stdout and "no error" in r.stdout
        self.tlc_stats.append({"name": "apalache:%s:%s" % (module, inv), "generated": 0, "distinct": 0, "seconds": round(time.time() - t, 2), "rc": r.returncode})
        if not ok:
            raise Machinery("apalache did not confirm %s!%s:\n%s" % (module, inv, r.stdout[-1500:]))
        return True

    @staticmethod
    def printed(outp, tag):
        """Values printed by PrintT(<<tag, ToJson(x)>>) in TLC output -> list of python objects."""
        res = []
        pre = '<<"%s", "' % tag
        for line in outp.splitlines():
            if line.startswith(pre) and line.endswith('">>'):
                s = line[len(pre) - 1:-2]
                try:
                    res.append(json.loads(json.loads(s)))
                except Exception as ex:  # pragma: no cover
                    raise Machinery("cannot parse TLC output line: %s (%s)" % (line[:200], ex))
        return res

    # ------------------------------------------------------------------ worker pool
    def run_jobs(self, jobs, nproc=None, per_job_timeout=20.0, sequential=False, chunks=None):
        """jobs: list of dicts with unique 'id'.  Returns {id: [events...]} where the last event is
        the 'end' event (synthesised with status 'exit'/'timeout'/'killed' if the worker died)."""
        if not jobs:
            return {}
        if chunks is None:
            nproc = 1 if sequential else min(nproc or NCPU, max(1, len(jobs) // 8 or 1))
            chunks = [jobs[i::nproc] for i in range(nproc)] if not sequential else [jobs]
        chunks = [c for c in chunks if c]
        procs = []
        for ci, ch in enumerate(chunks):
            procs.append(_WorkerRun(self, ci, ch, per_job_timeout))
        for p in procs:
            p.start()
        res = {}
        for p in procs:
            p.join()
            if p.error:
                raise Machinery("worker driver failed: %s" % p.error)
            res.update(p.result)
        missing = [j["id"] for j in jobs if j["id"] not in res]
        if missing:
            raise Machinery("jobs without result: %s" % missing[:5])
        return res

    def run_cli(self, args, timeout=60, cwd=None):
        t = time.time()
        try:
            r = subprocess.run([self.cli] + list(args), capture_output=True, timeout=timeout, cwd=cwd)
            return {"rc": r.returncode, "out": r.stdout, "err": r.stderr, "s": time.time() - t, "timeout": False}
        except subprocess.TimeoutExpired as ex:
            return {"rc": -999, "out": ex.stdout or b"", "err": ex.stderr or b"", "s": time.time() - t, "timeout": True}

    # ------------------------------------------------------------------ trace validation
    def validate(self, module, traces, cfg=None, nproc=None, max_events=60000, timeout=1800, env=None):
        """traces: list of event lists (one per case, begin..end).  Splits into files, validates
        each with TLC spec <module>, returns dict(rej=[...], dev=[...], info=[...], events=n)."""
        files = []
        cur, n = [], 0
        for tr in traces:
            if cur and n + len(tr) > max_events:
                files.append(cur)
                cur, n = [], 0
            cur.append(tr)
            n += len(tr)
        if cur:
            files.append(cur)
        # balance: at least nproc files when there is enough material
        nproc = nproc or max(1, NCPU // 2)
        if len(files) < nproc and len(traces) >= 4 * nproc:
            per = (len(traces) + nproc - 1) // nproc
            files = [traces[i:i + per] for i in range(0, len(traces), per)]
        paths = []
        total = 0
        for fi, group in enumerate(files):
            p = os.path.join(self.scratch, "trace_%s_%d_%d.ndjson" % (module, self._md, fi))
            with open(p, "w") as f:
                for tr in group:
                    for e in tr:
                        f.write(json.dumps(e, separators=(",", ":")))
                        f.write("\n")
                        total += 1
            paths.append(p)
        import concurrent.futures as cf
        out = {"rej": [], "dev": [], "info": [], "events": total, "files": len(paths), "states": 0}

        def one(p):
            e = {"TRACE": p}
            if env:
                e.update(env)
            return self.tlc(module, cfg=cfg, env=e, workers=1, timeout=timeout, name="trace:" + module)
        with cf.ThreadPoolExecutor(max_workers=nproc) as ex:
            for outp, st in ex.map(one, paths):
                out["states"] += st["distinct"]
                out["rej"] += self.printed(outp, "REJ")
                out["dev"] += self.printed(outp, "DEV")
                out["info"] += self.printed(outp, "INFO")
                if "TRACE-CONSUMED" not in outp:
                    raise Machinery("trace spec %s did not consume its trace:\n%s" % (module, "\n".join(outp.splitlines()[-30:])))
        for p in paths:
            os.remove(p)
        return out

    # ------------------------------------------------------------------ evidence / verdict
    def write_evidence(self, level, coverage, assumptions, violations):
        ev = {"property_id": self.prop, "tier": self.tier, "seed": self.seed, "level": level,
              "coverage": coverage, "assumptions": assumptions,
              "wall_s": round(time.time() - self.t0, 2), "violations": violations}
        edir = os.environ.get("VERIF_EVIDENCE_DIR") or os.path.join(VERIF, "evidence")   # (override: mutant evaluation only)
        os.makedirs(edir, exist_ok=True)
        p = os.path.join(edir, self.prop + ".json")
        with open(p, "w") as f:
            json.dump(ev, f, indent=1, sort_keys=True)
            f.write("\n")
        return p

    def write_replay(self, key, obj):
        d = os.environ.get("VERIF_REPLAY_DIR") or os.path.join(VERIF, "replay")
        os.makedirs(d, exist_ok=True)
        h = hashlib.sha256(json.dumps(key, sort_keys=True).encode()).hexdigest()[:12]
        p = os.path.join(d, "%s-%s.json" % (self.prop, h))
        with open(p, "w") as f:
            json.dump(obj, f, indent=1, sort_keys=True)
            f.write("\n")
        return p


import threading


class _WorkerRun(threading.Thread):
    def __init__(self, ctx, idx, jobs, tmo):
        super().__init__(daemon=True)
        self.ctx, self.idx, self.jobs, self.tmo = ctx, idx, jobs, tmo
        self.result = {}
        self.error = None

    def run(self):
        try:
            self._run()
        except Exception as ex:  # pragma: no cover
            import traceback
            self.error = "%s\n%s" % (ex, traceback.format_exc())

    def _run(self):
        pending = list(self.jobs)
        sdir = os.path.join(self.ctx.scratch, "w%d" % self.idx)
        os.makedirs(sdir, exist_ok=True)
        while pending:
            proc = subprocess.Popen([self.ctx.worker, sdir], stdin=subprocess.PIPE, stdout=subprocess.PIPE,
                                    stderr=subprocess.DEVNULL)
            # feed from a thread so a dying worker cannot dead-lock us
            def feed(p=proc, js=list(pending)):
                try:
                    for j in js:
                        p.stdin.write((json.dumps(j) + "\n").encode())
                    p.stdin.close()
                except Exception:
                    pass
            ft = threading.Thread(target=feed, daemon=True)
            ft.start()
            cur = None
            evs = []
            done_ids = set()
            timer = [None]

            def arm():
                if timer[0]:
                    timer[0].cancel()
                timer[0] = threading.Timer(self.tmo, lambda: proc.kill())
                timer[0].daemon = True
                timer[0].start()
            arm()
            killed_by_timer = False
            for line in proc.stdout:
                try:
                    e = json.loads(line)
                except Exception:
                    continue
                if e.get("e") == "job":
                    cur = e["id"]
                    evs = []
                    arm()
                elif e.get("e") == "end":
                    evs.append(e)
                    self.result[e["id"]] = evs
                    done_ids.add(e["id"])
                    cur = None
                    evs = []
                else:
                    evs.append(e)
            if timer[0]:
                timer[0].cancel()
            rc = proc.wait()
            pending = [j for j in pending if j["id"] not in done_ids]
            if cur is not None and cur not in done_ids:
                # the worker died inside job `cur`
                status = "exit"
                if rc < 0:
                    status = "timeout" if rc == -9 else "signal"
                so = ""
                try:
                    with open(os.path.join(sdir, "stdout.cap"), "rb") as f:
                        so = f.read(600).decode("ascii", "replace")
                except Exception:
                    pass
                so = "".join(c if 32 <= ord(c) < 127 and c not in '"\\' else "?" for c in so)
                dst = None
                for j in pending:
                    if j["id"] == cur:
                        dst = j.get("dst") or os.path.join(sdir, "out.bin")
                outlen, hx = -1, ""
                try:
                    with open(dst, "rb") as f:
                        data = f.read()
                    outlen, hx = len(data), data.hex()
                except Exception:
                    pass
                evs.append({"e": "end", "id": cur, "status": status, "exit": rc if rc >= 0 else 128 - rc,
                            "panic": "", "perr": "", "stdout": so, "outlen": outlen, "hex": hx,
                            "diag": {"error": 0, "Error": 0, "warn": 0, "Warn": 0}, "diagfirst": {}})
                self.result[cur] = evs
                pending = [j for j in pending if j["id"] != cur]
            elif not done_ids and pending and cur is None:
                raise Machinery("worker produced nothing (rc=%s)" % rc)


def is_diagnosed(end):
    """The generous reading of 'diagnostic' from DESIGN.md section 4."""
    d = end.get("diag", {})
    return bool(end.get("status") != "ok" or end.get("exit", 0) != 0 or d.get("error", 0) or d.get("Error", 0)
                or "GOSK :" in end.get("stdout", ""))


def replay(ctx, prop, path):
    """Re-run one recorded violation: assemble its source with the real gosk (hooks on) and validate the run again."""
    import flow
    from findings import Findings
    d = json.load(open(path))
    if not d.get("source") or d.get("stmts") is None:
        print("replay file has no program (property %s records sources only for assembler runs); content:" % prop)
        print(json.dumps(d, indent=1)[:3000])
        return 2
    ctx.build()
    R = flow.Runner(ctx)
    job = {k: v for k, v in (d.get("job") or {}).items() if k in ("pre", "maxout")}
    R.add(d["stmts"], src=d["source"], **job)
    R.run()
    for e in R.results[1]:
        print(json.dumps(e)[:400])
    ver = ctx.validate("Trace_Asm", R.traces(), nproc=1)
    F = Findings()
    viol, known, other = flow.classify(ctx, ver, R, F, prop)
    for r in ver["rej"]:
        print("REJ", json.dumps(r)[:600])
    print("replay: %d rejection(s) tagged %s, %d explained by known findings, %d of other properties" % (len(viol), prop, len(known), len(other)))
    if viol:
        print("VIOLATION property=%s replay=%s" % (prop, path))
        return 1
    return 0


def main_wrapper(fn):
    """Run a check function(ctx) -> (violations:list, known:list) with the common exit protocol."""
    import argparse
    ap = argparse.ArgumentParser()
    ap.add_argument("--tier", default=os.environ.get("VERIF_TIER", "quick"))
    ap.add_argument("--replay", default=None)
    ap.add_argument("--keep", action="store_true")
    a = ap.parse_args(sys.argv[2:])
    prop = sys.argv[1]
    ctx = Ctx(prop, a.tier if a.tier in ("quick", "thorough") else "quick")
    ctx.replay = a.replay
    rc = 2
    try:
        if a.replay:
            rc = replay(ctx, prop, a.replay)
        else:
            rc = fn(ctx)
    except Machinery as ex:
        log("MACHINERY FAILURE: %s" % ex)
        rc = 2
    except Exception:         # a bug in the checking code is never a verdict about gosk
        import traceback
        log("MACHINERY FAILURE (internal error of the check):\n" + traceback.format_exc())
        rc = 2
    finally:
        if not a.keep:
            ctx.cleanup()
        else:
            log("scratch kept at", ctx.scratch)
    sys.exit(rc)
