# NASK source text -> abstract statements (the inverse of render.py, for real-world sources: /verif/corpus).
# It is deliberately small: whatever it does not understand becomes an opaque `raw` statement (unjudged by the
# reference, still counted and still laid out).  Its faithfulness is CHECKED, not trusted: corpus.py assembles
# both the original text and render.program(parse(text)) and requires identical images (relation "eq"), and the
# trace specification compares every parsed statement kind with what gosk itself parsed (SYNC).
import re

import render

BRANCH = {"JMP", "CALL", "JA", "JAE", "JB", "JBE", "JC", "JE", "JG", "JGE", "JL", "JLE", "JNA", "JNAE", "JNB", "JNBE", "JNC", "JNE", "JNG",
          "JNGE", "JNL", "JNLE", "JNO", "JNP", "JNS", "JNZ", "JO", "JP", "JPE", "JPO", "JS", "JZ"}
SIZE = {"BYTE": 8, "WORD": 16, "DWORD": 32}
REGS = {}
for w, names in ((8, render.R8), (16, render.R16), (32, render.R32)):
    for n, nm in enumerate(names):
        REGS[nm] = {"t": "r", "w": w, "n": n}
for n, nm in enumerate(render.SREG):
    REGS[nm] = {"t": "s", "n": n}
for n in (0, 2, 3, 4):
    REGS["CR%d" % n] = {"t": "c", "n": n}


class Unparsed(Exception):
    pass


def strip_comment(line):
    out, q = [], None
    for ch in line:
        if q:
            out.append(ch)
            if ch == q:
                q = None
        elif ch in "\"'":
            q = ch
            out.append(ch)
        elif ch in ";#":
            break
        else:
            out.append(ch)
    return "".join(out).rstrip()


def split_top(s, sep=","):
    parts, cur, depth, q = [], [], 0, None
    for ch in s:
        if q:
            cur.append(ch)
            if ch == q:
                q = None
        elif ch in "\"'":
            q = ch
            cur.append(ch)
        elif ch in "[(":
            depth += 1
            cur.append(ch)
        elif ch in "])":
            depth -= 1
            cur.append(ch)
        elif ch == sep and depth == 0:
            parts.append("".join(cur).strip())
            cur = []
        else:
            cur.append(ch)
    parts.append("".join(cur).strip())
    return parts


TOK = re.compile(r"\s*(0[xX][0-9a-fA-F]+|[0-9]+|[A-Za-z_.$@?][A-Za-z0-9_.$@?]*|\$|[-+*/%()])")


def tokens(s):
    pos, out = 0, []
    s = s.strip()
    while pos < len(s):
        m = TOK.match(s, pos)
        if not m:
            raise Unparsed(s)
        out.append(m.group(1))
        pos = m.end()
    return out


def number(t):
    if re.fullmatch(r"0[xX][0-9a-fA-F]+", t):
        v = int(t, 16)
        if v >= 1 << 31:
            v -= 1 << 32
        return {"o": "n", "v": v, "sty": "H" if t[1] == "X" else "h"}
    if re.fullmatch(r"[0-9]+", t):
        return {"o": "n", "v": int(t), "sty": "z" if len(t) > 1 and t[0] == "0" else "d"}
    return None


def parse_expr(toks):
    """AddExp <- MultExp ((+|-) MultExp)* ; MultExp <- Unary ((*|/|%) Unary)* ; Unary <- -? Primary"""
    pos = [0]

    def peek():
        return toks[pos[0]] if pos[0] < len(toks) else None

    def primary():
        t = peek()
        if t is None:
            raise Unparsed("expr")
        pos[0] += 1
        if t == "(":
            e = add()
            if peek() != ")":
                raise Unparsed("paren")
            pos[0] += 1
            return {"o": "par", "a": e}
        if t == "-":
            a = primary()
            if a["o"] == "n":
                return {"o": "n", "v": -a["v"], "sty": "d" if a.get("sty") in ("d", "z") else "x"}
            return {"o": "neg", "a": a}
        if t == "$":
            return {"o": "$"}
        n = number(t)
        if n:
            return n
        if re.fullmatch(r"[A-Za-z_.$@?][A-Za-z0-9_.$@?]*", t) and t.upper() not in REGS:
            return {"o": "id", "nm": t}
        raise Unparsed(t)

    def mult():
        e = primary()
        while peek() in ("*", "/", "%"):
            op = toks[pos[0]]
            pos[0] += 1
            e = {"o": op, "a": e, "b": primary()}
        return e

    def add():
        e = mult()
        while peek() in ("+", "-"):
            op = toks[pos[0]]
            pos[0] += 1
            e = {"o": op, "a": e, "b": mult()}
        return e
    e = add()
    if pos[0] != len(toks):
        raise Unparsed("trailing")
    return e


def const_value(e):
    o = e["o"]
    if o == "n":
        return e["v"]
    if o == "par":
        return const_value(e["a"])
    if o == "neg":
        return -const_value(e["a"])
    if o in "+-*/%":
        a, b = const_value(e["a"]), const_value(e["b"])
        if o == "+":
            return a + b
        if o == "-":
            return a - b
        if o == "*":
            return a * b
        if b == 0:
            raise Unparsed("div0")
        q = abs(a) // abs(b) * (1 if (a < 0) == (b < 0) else -1)
        return q if o == "/" else a - q * b
    raise Unparsed("not constant")


def imm_operand(text):
    e = parse_expr(tokens(text))
    if e["o"] == "n":
        return {"t": "i", "v": e["v"], "sty": e.get("sty", "d")}
    if e["o"] == "id":
        return {"t": "l", "nm": e["nm"], "add": 0}
    if e["o"] in "+-" and e["a"]["o"] == "id" and e["b"]["o"] == "n" and e["b"]["v"] >= 0:
        return {"t": "l", "nm": e["a"]["nm"], "add": e["b"]["v"] if e["o"] == "+" else -e["b"]["v"]}
    return {"t": "e", "e": e, "text": text.strip()}


def mem_operand(inner, w):
    toks = tokens(inner)
    # split into signed terms at top level
    terms, cur, sign, depth = [], [], 1, 0
    for t in toks:
        if t == "(":
            depth += 1
        if t == ")":
            depth -= 1
        if t in "+-" and depth == 0 and cur:
            terms.append((sign, cur))
            cur, sign = [], (1 if t == "+" else -1)
        elif t in "+-" and depth == 0 and not cur:
            sign = sign * (1 if t == "+" else -1)
        else:
            cur.append(t)
    if cur:
        terms.append((sign, cur))
    b = x = -1
    sc, d, lab, hd, aw, sty = 1, 0, "", 0, 0, "d"
    for sign, t in terms:
        up = [z.upper() for z in t]
        if len(t) == 1 and up[0] in REGS and REGS[up[0]]["t"] == "r" and REGS[up[0]]["w"] in (16, 32):
            if sign < 0:
                raise Unparsed("negative register")
            r = REGS[up[0]]
            aw = r["w"]
            if b == -1:
                b = r["n"]
            elif x == -1:
                x = r["n"]
            else:
                raise Unparsed("three registers")
        elif len(t) == 3 and t[1] == "*" and (up[0] in REGS or up[2] in REGS):
            rn, k = (up[0], t[2]) if up[0] in REGS else (up[2], t[0])
            r = REGS[rn]
            if sign < 0 or x != -1 or r["t"] != "r" or number(k) is None:
                raise Unparsed("scale")
            aw, x, sc = r["w"], r["n"], number(k)["v"]
        elif len(t) == 1 and number(t[0]):
            n = number(t[0])
            d += sign * n["v"]
            hd, sty = 1, ("h" if n["sty"] in ("h", "H") else "d")
        elif len(t) == 1 and not lab and sign > 0 and up[0] not in REGS:
            lab = t[0]
        else:
            raise Unparsed("memory term")
    o = {"t": "m", "w": w, "aw": aw, "b": b, "x": x, "sc": sc, "d": d, "hd": hd, "lab": lab, "sty": sty}
    if lab and not hd:
        o["hd"] = 0
    if not lab and b == -1 and x == -1:
        o["hd"] = 1
    return o


def operand(text):
    t = text.strip()
    up = t.upper()
    if up in REGS:
        return dict(REGS[up])
    w = 0
    m = re.match(r"(BYTE|WORD|DWORD)\s+(.*)$", t, re.I)
    if m:
        w, t = SIZE[m.group(1).upper()], m.group(2).strip()
    if t.startswith("[") and t.endswith("]"):
        inner = t[1:-1]
        if ":" in inner:
            raise Unparsed("segment override")
        return mem_operand(inner, w)
    if w:
        raise Unparsed("size keyword before a non-memory operand")
    if t[:1] in "\"'":
        raise Unparsed("string operand")
    return imm_operand(t)


def data_items(rest):
    items = []
    for p in split_top(rest):
        if p[:1] in "\"'" and p[-1:] == p[:1] and len(p) >= 2:
            items.append({"t": "s", "b": list(p[1:-1].encode("latin-1"))})
        else:
            e = parse_expr(tokens(p))
            items.append({"t": "e", "e": e, "text": p})
    return items


def statement(text):
    """One statement (no label prefix, no comment).  Returns an abstract statement."""
    t = text.strip()
    m = re.match(r"\[\s*([A-Za-z]+)\s*(.*?)\s*\]$", t)
    if m:
        mn, arg = m.group(1).upper(), m.group(2)
        if mn == "BITS":
            return {"k": "bits", "v": int(arg)}
        return {"k": "cfg", "mn": mn, "s": arg.strip('"')}
    m = re.match(r"([A-Za-z_.$@?][A-Za-z0-9_.$@?]*)\s+EQU\s+(.*)$", t)
    if m:
        return {"k": "equ", "nm": m.group(1), "e": parse_expr(tokens(m.group(2))), "text": m.group(2).strip()}
    m = re.match(r"([A-Za-z][A-Za-z0-9]*)(?:\s+(.*))?$", t)
    if not m:
        raise Unparsed(t)
    mn, rest = m.group(1).upper(), (m.group(2) or "").strip()
    try:
        if mn == "ORG":
            e = parse_expr(tokens(rest))
            return {"k": "org", "v": const_value(e), "sty": "h"}
        if mn in ("GLOBAL", "EXTERN"):
            return {"k": mn.lower(), "names": [p for p in split_top(rest)]}
        if mn in ("DB", "DW", "DD"):
            return {"k": "data", "mn": mn, "items": data_items(rest)}
        if mn == "RESB":
            return {"k": "resb", "e": parse_expr(tokens(rest)), "text": rest}
        if mn == "ALIGNB":
            return {"k": "alignb", "v": const_value(parse_expr(tokens(rest)))}
        if mn in BRANCH and rest:
            m2 = re.match(r"(?:(DWORD|WORD|FAR)\s+)?([^:]+):(.+)$", rest, re.I)
            if m2:
                return {"k": "far", "mn": mn, "kw": (m2.group(1) or "").upper(), "seg": const_value(parse_expr(tokens(m2.group(2)))),
                        "off": const_value(parse_expr(tokens(m2.group(3)))), "sty": "h"}
            if not re.match(r"(SHORT|NEAR|FAR|BYTE|WORD|DWORD)\b", rest, re.I) and rest.upper() not in REGS and not rest.startswith("["):
                o = imm_operand(rest)
                if o["t"] == "l":
                    return {"k": "br", "mn": mn, "tgt": {"t": "l", "nm": o["nm"], "add": o["add"]}}
                if o["t"] == "i":
                    return {"k": "br", "mn": mn, "tgt": {"t": "n", "v": o["v"], "sty": "h"}}
        ops = [operand(p) for p in split_top(rest)] if rest else []
        return {"k": "ins", "mn": mn, "ops": ops}
    except (Unparsed, ValueError, KeyError):
        return {"k": "raw", "mn": mn, "emits": True, "text": "\t" + t}


def parse(src):
    """Whole source -> list of abstract statements (labels are statements of their own)."""
    out = []
    for line in src.replace("\r\n", "\n").replace("\r", "\n").split("\n"):
        t = strip_comment(line).strip()
        while t:
            m = re.match(r"([A-Za-z_.$@?][A-Za-z0-9_.$@?]*)\s*:(?!\S*:)\s*(.*)$", t)
            if m and m.group(1).upper() not in REGS and not re.match(r"[0-9]", m.group(2) or "x"):
                out.append({"k": "label", "nm": m.group(1)})
                t = m.group(2).strip()
                continue
            out.append(statement(t))
            break
    return out
