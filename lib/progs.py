# Random programs from spec/Gen_Prog.tla (TLC -simulate, seeded) completed into runnable sources.
import json

EQUS = [{"k": "equ", "nm": "CYLS", "e": {"o": "n", "v": 10}},
        {"k": "equ", "nm": "BASE", "e": {"o": "n", "v": 0x8000, "sty": "h"}}]


def gen(ctx, num, length=14, nl=3, bits=16, flavor="full", seed=None):
    seed = ctx.seed if seed is None else seed
    cfg = 'CONSTANTS N = %d\n NL = %d\n Bits = %d\n Flavor = "%s"\nINIT Init\nNEXT Next\nCHECK_DEADLOCK FALSE\n' % (length, nl, bits, flavor)
    out, st = ctx.tlc("Gen_Prog", cfg_text=cfg, workers=1, name="gen:prog:%s:%d" % (flavor, bits),
                      extra=["-simulate", "num=%d" % num, "-depth", str(length + 3), "-seed", str(seed)], timeout=600)
    cases = ctx.printed(out, "CASE")
    return cases


def complete(case, org=0x7c00, bits=16, equs=True):
    """prefix (ORG, BITS, EQU definitions) + generated body + definitions of still-undefined labels."""
    st = []
    if org is not None:
        st.append({"k": "org", "v": org})
    if bits == 32:
        st.append({"k": "bits", "v": 32})
    if equs:
        st += [dict(e) for e in EQUS]
    st += case["prog"]
    for nm in sorted(case.get("undef", [])):
        st.append({"k": "label", "nm": nm})
        st.append({"k": "ins", "mn": "HLT", "ops": []})
    st.append({"k": "label", "nm": "fin"})
    st.append({"k": "ins", "mn": "HLT", "ops": []})
    return st
