# Shared body of C08 / C09.
import hashlib
import json
import random

import coffraw
import flow
import report
import render
from findings import Findings
from vlib import is_diagnosed, Machinery

NAMES = {"n1": "a", "n7": "_func07", "n8": "_funct08", "n9": "_functi09", "n17": "_asm_inthandler21", "n40": "_a_very_long_global_symbol_name_of_forty",
         "p9a": "_io_out8a", "p9b": "_io_out8b", "sub": "_asm_inthandler2", "suf": "_inthandler21", "pre3": "abc_inthandler21"}
FILES = [None, "a", "sixteen_chars.nas", "eighteen_chars.nas", "nineteen_chars_.nas", "a_source_file_name_of_forty_characters.n",
         "thirty_six_characters_long_name_.nas", "f" * 4608]
TEXTS = [0, 1, 3, 4096, 70000]

ASSUME = ["the raw reader lib/coffraw.py only slices the file at the offsets the headers give; interpretation (WellFormed, Matches) is done by TLC on spec/Coff.tla, whose writer model is model-checked (MC_Coff)",
          "Go's debug/pe (in the worker) is the independent COFF reader",
          "label values come from gosk's final symbol table, which C03 ties to the real offsets; the flat image is the same source assembled without the FORMAT directive"]


def gen(ctx, maxnames):
    cfg = "CONSTANTS MaxNames = %d\nINIT Init\nNEXT Next\nINVARIANT Emit\nCHECK_DEADLOCK FALSE\n" % maxnames
    out, st = ctx.tlc("Gen_Coff", cfg_text=cfg, workers=6, name="gen:coff", timeout=900)
    cs = ctx.printed(out, "CASE")
    cs.sort(key=lambda c: json.dumps(c, sort_keys=True))
    return cs


def build(c, k):
    decl = [NAMES[i] for i in c["decl"]]
    distinct = []
    for n in decl:
        if n not in distinct:
            distinct.append(n)
    und = set()
    if c["undef"] == "first" and distinct:
        und = {distinct[0]}
    elif c["undef"] == "last" and distinct:
        und = {distinct[-1]}
    elif c["undef"] == "all":
        und = set(distinct)
    defined = [n for n in distinct if n not in und]
    body_order = list(defined)
    if c["order"] == "reverse":
        body_order.reverse()
    fname = FILES[k % len(FILES)]
    textlen = TEXTS[(k // len(FILES)) % len(TEXTS)]
    hdr = [{"k": "cfg", "mn": "FORMAT", "s": "WCOFF"}, {"k": "cfg", "mn": "INSTRSET", "s": '"i486p"'}, {"k": "bits", "v": 32}]
    if fname is not None:
        hdr.append({"k": "cfg", "mn": "FILE", "s": fname})
    g = []
    if decl:
        if c["split"] == "one":
            g.append({"k": "global", "names": decl})
        elif c["split"] == "chain":     # GLOBAL d1 ; GLOBAL d1,d2 ; ...: names already declared stand before new ones
            g += [{"k": "global", "names": decl[:i + 1]} for i in range(len(decl))]
            decl = [n for i in range(len(decl)) for n in decl[:i + 1]]
        else:
            g += [{"k": "global", "names": [n]} for n in decl]
    body = [{"k": "cfg", "mn": "SECTION", "s": ".text"}]
    used = 0
    if k % 3 == 0 and body_order and textlen >= 4096:     # a branch to a GLOBAL label before its definition (far enough for the rel32 form)
        body.append({"k": "br", "mn": "CALL", "tgt": {"t": "l", "nm": body_order[-1], "add": 0}})
        body.append({"k": "resb", "e": {"o": "n", "v": 40000}})
    for i, n in enumerate(body_order):
        body.append({"k": "label", "nm": n})
        if c["order"] == "alias" and i % 2 == 0 and i + 1 < len(body_order):
            continue        # the next label is an alias of this address
        if used + 1 <= textlen:
            body.append({"k": "ins", "mn": "RET", "ops": []})
            used += 1
    if textlen > used:
        body.append({"k": "resb", "e": {"o": "n", "v": textlen - used}})
    # GLOBAL declared after the definitions for odd k
    if k % 2 == 1 and c["split"] == "each":
        st = hdr + body + g
    else:
        st = hdr + g + body
    flat = [s for s in st if not (s["k"] == "cfg" and s["mn"] == "FORMAT")]
    return st, flat, decl, fname or ""


def run(ctx, prop):
    ctx.build()
    quick = ctx.tier == "quick"
    rng = random.Random(ctx.seed)
    ctx.tlc("MC_Coff", workers=10, name="mc:Coff writer (Inv_Layout, Inv_C08, Inv_C09)", timeout=1800)
    ctx.apalache("CoffLemma", "Lemma")        # region tiling / containment for ALL sizes (MC_Coff is bounded)
    cells = gen(ctx, 2 if quick else 3)
    if not quick and len(cells) > 9000:
        small = [c for c in cells if len(c["decl"]) <= 2]
        big = [c for c in cells if len(c["decl"]) > 2]
        rng.shuffle(big)
        cells = small + big[:6000]
    if quick:
        rng.shuffle(cells)
        cells = cells[:900]
    R = flow.Runner(ctx)
    plan = []
    for k, c in enumerate(cells):
        st, flat, decl, fname = build(c, k)
        a = R.add(st, maxout=1)
        b = R.add(flat, maxout=1)
        plan.append((a, b, decl, fname, c))
    # realistic code: seeded random 32-bit programs (spec/Gen_Prog.tla) with a random subset of their labels declared GLOBAL,
    # in random order, in one or several statements, before or after the definitions
    import progs
    for ci, c in enumerate(progs.gen(ctx, 40 if quick else 400, length=16, nl=5, bits=32)):
        body = progs.complete(c, org=None, bits=32, equs=True)[1:]     # (drop the leading BITS: re-added in the header)
        labs = [s_["nm"] for s_ in body if s_["k"] == "label"]
        decl = rng.sample(labs, rng.randrange(0, len(labs) + 1))
        if ci % 4 == 0 and decl:
            decl.append(decl[0])           # a duplicate declaration
        if ci % 5 == 0:
            decl.append("_never_defined_%d" % ci)
        hdr = [{"k": "cfg", "mn": "FORMAT", "s": "WCOFF"}, {"k": "cfg", "mn": "INSTRSET", "s": '"i486p"'}, {"k": "bits", "v": 32}, {"k": "cfg", "mn": "FILE", "s": "prog%d.nas" % ci}]
        g = []
        if decl:
            g = [{"k": "global", "names": decl}] if ci % 2 else [{"k": "global", "names": [n]} for n in decl]
            if ci % 7 == 0 and len(decl) >= 2:      # an already declared name stands before new ones
                g = [{"k": "global", "names": decl[:1]}, {"k": "global", "names": decl}]
                decl = decl[:1] + decl
        st = hdr + (g if ci % 3 else []) + [{"k": "cfg", "mn": "SECTION", "s": ".text"}] + body + ([] if ci % 3 else g)
        flat = [s_ for s_ in st if not (s_["k"] == "cfg" and s_["mn"] == "FORMAT")]
        a = R.add(st, maxout=1)
        b = R.add(flat, maxout=1)
        plan.append((a, b, decl, "prog%d.nas" % ci, None))
    # the object-file programs of /verif/corpus as written (naskfunc.nas of the book and the extended one): GLOBAL names and [FILE]
    # are read from the parsed statements; the flat twin is the same text without the FORMAT line
    import corpus, re as _re
    ncorpus = 0
    for name, src, st in corpus.load():
        if not any(s_["k"] == "cfg" and s_["mn"] == "FORMAT" and "COFF" in s_["s"] for s_ in st):
            continue
        decl = [n for s_ in st if s_["k"] == "global" for n in s_["names"]]
        fname = next((s_["s"] for s_ in st if s_["k"] == "cfg" and s_["mn"] == "FILE"), "")
        a = R.add(st, src=src, maxout=1)
        b = R.add([s_ for s_ in st if not (s_["k"] == "cfg" and s_["mn"] == "FORMAT")], src=_re.sub(r"(?m)^\[FORMAT[^\n]*\n", "", src), maxout=1)
        plan.append((a, b, decl, fname, None))
        ncorpus += 1
    R.run()
    events = []
    ndiag = 0
    for a, b, decl, fname, c in plan:
        ea, eb = R.end(a), R.end(b)
        if ea.get("status") != "ok" or is_diagnosed(ea) or ea.get("fmt") != "WCOFF":
            ndiag += 1
            if ea.get("status") != "ok":
                continue
        data = bytes.fromhex(ea.get("hex", ""))
        obj = coffraw.read(data)
        flatdata = bytes.fromhex(eb.get("hex", ""))
        pe = ea.get("pe", {"err": "no pe summary"})
        run_ = {"decl": [list(n.encode()) for n in decl], "sym": {}, "flatsha": hashlib.sha256(flatdata).hexdigest()[:16],
                "file": list(fname.encode()), "ext": []}
        # label values (TLC needs a function name-bytes -> value; JSON objects have string keys, so pass pairs)
        sym = ea.get("sym", {})
        run_["symp"] = [[list(n.encode()), v] for n, v in sorted(sym.items())]
        events.append({"e": "coff", "id": a, "obj": obj, "run": run_,
                       "pe": {"err": pe.get("err", ""), "nsyms": len(pe.get("syms", [])) if not pe.get("err") else 0}})
    # validate the individual runs (labels/layout) and the objects
    ver = ctx.validate("Trace_Asm", R.traces(), nproc=10)
    import os
    p = os.path.join(ctx.scratch, "coff_trace.ndjson")
    nfiles = 8
    paths = []
    for i in range(nfiles):
        part = events[i::nfiles]
        if not part:
            continue
        pp = "%s.%d" % (p, i)
        with open(pp, "w") as f:
            for e in part:
                f.write(json.dumps(e, separators=(",", ":")) + "\n")
        paths.append(pp)
    import concurrent.futures as cf

    def one(pp):
        return ctx.tlc("Trace_Coff", env={"TRACE": pp}, workers=1, name="trace:Trace_Coff")
    with cf.ThreadPoolExecutor(max_workers=8) as ex:
        for outp, st in ex.map(one, paths):
            if "TRACE-CONSUMED" not in outp:
                raise Machinery("Trace_Coff did not consume its trace\n" + "\n".join(outp.splitlines()[-20:]))
            ver["rej"] += ctx.printed(outp, "REJ")
            ver["events"] += st["distinct"]
    F = Findings()
    viol, known, other = flow.classify(ctx, ver, R, F, prop)
    mc = [s for s in ctx.tlc_stats if s["name"].startswith("mc:")]
    cov = {"states": sum(s["distinct"] for s in ctx.tlc_stats if not s["name"].startswith("trace:")), "transitions": sum(s["generated"] for s in ctx.tlc_stats if not s["name"].startswith("trace:")),
           "traces_validated_against_impl": len(events), "objects_validated": len(events), "corpus_objects": ncorpus, "programs_with_diagnostic": ndiag,
           "trace_events": ver["events"], "evaluations": len(plan), "distinct_nontrivial": len(events),
           "rule": "TLC enumerates (Gen_Coff.tla) GLOBAL declaration lists of 0..%d names over 9 name classes (lengths 1,7,8,9,17,40; two names sharing an 8-byte prefix; a long name that is a prefix of another) incl. duplicates x which names are undefined x one/several GLOBAL statements x label order (declaration, reverse, aliases at one address)%s; "
                   "[FILE] names of length none/1/17/18/19/40 and .text lengths 0/1/3/4096/70000 are cycled over the cells; every object is read raw and by debug/pe and judged by TLC against WellFormed/Matches; the same source without FORMAT gives the flat image" % (2 if quick else 3, " (seeded sample)" if quick else ""),
           "model_checking": "MC_Coff: the writer state machine (placeholder header, section headers, .text, symbol records, string table, patch) satisfies WellFormed and Matches for all 59 904 bounded inputs (GLOBAL lists of <= 3 names over 5 length classes incl. duplicates and a shared prefix, any subset defined, .text 0/1/5 bytes, FILE names of 0/5/18/19 bytes)",
           "symbolic_lemma": "CoffLemma.tla (Apalache, all .text sizes <= 2^30, record counts <= 2^24, string tables <= 2^30): the consistency equations of WellFormed (items 4, 5, 6, 8) make header | section headers | .text | 18-byte records | string table tile the file exactly, every record and every NUL-terminated name with 4 <= off and off + len + 1 <= strlen lies inside its region, and growing .text moves symptr and the file length by the same amount and nothing else",
           "samples": [R.cases[i]["src"] for i in (0, 2, len(R.cases) - 2)], "tlc_runs": ctx.tlc_stats[:5], "exhaustive": False}
    return report.finish(ctx, prop, viol, known, other, R, cov, ASSUME)
